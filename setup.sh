#!/bin/sh
# Offline setup: hypothesis (+ jsonschema for evidence validation) into /venv from the local wheelhouse.
# Idempotent; never touches the network.
W=/opt/veriftools/wheels
/venv/bin/python -c "import hypothesis" 2>/dev/null || \
  /venv/bin/pip install --no-index --find-links "$W" hypothesis || exit 1
/venv/bin/python -c "import jsonschema" 2>/dev/null || \
  /venv/bin/pip install --no-index --find-links "$W" jsonschema || echo "note: jsonschema unavailable, evidence is not schema-validated at run time"
mkdir -p "$(dirname "$0")/.deps"
/venv/bin/python -c "import sys; sys.path.insert(0, '$(dirname "$0")/.deps'); import atheris" 2>/dev/null || \
  /venv/bin/pip install --no-index --find-links "$W" --target "$(dirname "$0")/.deps" atheris >/dev/null 2>&1 || \
  echo "note: atheris unavailable (auxiliary C04 campaign is skipped)"
/venv/bin/python -c "import hypothesis, flamapy.metamodels.fm_metamodel as m; print('setup ok: hypothesis', hypothesis.__version__, 'fm_metamodel at', list(m.__path__)[0])"
