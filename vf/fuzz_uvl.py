"""Coverage-guided auxiliary campaign for C04 (atheris / libFuzzer): bytes -> UVL text -> UVLReader.

Oracle inside the target (so that libFuzzer's notion of 'crash' is the property, not memory safety):
  * the raw uvlparser (strict listeners on lexer and parser) reports a syntax error and UVLReader
    returns a model                                   -> violation 'syntax-error-accepted'
  * UVLReader returns a model that is not a well-formed tree (C02 invariants)   -> violation
Inputs that raise the target's Violation are written by libFuzzer to the artifact directory; the parent
(vf/props/c04.py) replays every corpus and artifact file through the normal oracle, so reporting, known
findings and replay files work as for the Hypothesis sub-checks.

usage: python -m vf.fuzz_uvl <corpus_dir> <artifact_dir> <runs> <seed>
"""
import os
import sys
import tempfile


class Violation(Exception):
    pass


def main(argv):
    corpus, artifacts, runs, seed = argv[1], argv[2], int(argv[3]), int(argv[4])
    deps = os.path.join(os.path.dirname(os.path.dirname(os.path.abspath(__file__))), ".deps")
    sys.path.insert(0, deps)
    import atheris
    from vf import env
    env.assert_repo()
    with atheris.instrument_imports(include=["flamapy.metamodels.fm_metamodel"]):
        from flamapy.metamodels.fm_metamodel.transformations import UVLReader
    from vf import build, roundtrip as rt, uvl_raw
    import logging
    logging.disable(logging.CRITICAL)
    tmp = tempfile.mkdtemp(prefix="vf-fuzz-")
    path = os.path.join(tmp, "doc.uvl")

    def target(data):
        try:
            text = data.decode("utf-8")
        except UnicodeDecodeError:
            return
        if "\x00" in text:
            return
        with open(path, "w", encoding="utf-8", newline="") as fh:
            fh.write(text)
        lex, par = uvl_raw.strict_errors(text)
        try:
            fm = UVLReader(path).transform()
        except Exception:  # noqa: BLE001 - raising is the loud failure the property asks for
            return
        if lex or par:
            raise Violation("syntax-error-accepted")
        if [k for k, _ in rt.wellformed(build.observe(fm), "C04") if not k.endswith("duplicate-names")]:
            raise Violation("not-well-formed")

    args = [sys.argv[0], corpus, f"-runs={runs}", f"-seed={seed or 1}", "-max_len=1500", "-timeout=20",
            f"-artifact_prefix={artifacts}/", "-print_final_stats=1", "-verbosity=0"]
    atheris.Setup(args, target)
    atheris.Fuzz()


if __name__ == "__main__":
    main(sys.argv)
