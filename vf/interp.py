"""Independent interpreters of the exported formats (SXFM, propositional .exp, Clafer subset).

Each parses the export as a program and decides, for a selection of features, whether the export
accepts it.  Written from the target formats' definitions; no code shared with /repo.
"""
import itertools
import re


class ParseError(Exception):
    pass


# ====================================================================== SXFM
class SxfmNode:
    def __init__(self, kind, name, fid, card=None):
        self.kind, self.name, self.fid, self.card = kind, name, fid, card
        self.children = []


_FEAT = re.compile(r"^:(r|m|o|)\s+(.*)\((.*)\)\s*$")
_GROUP = re.compile(r"^:g\s*(?:\((.*?)\))?\s*\[\s*(\d+)\s*,\s*(\d+|\*)\s*\]\s*$")


def parse_sxfm(text):
    m = re.search(r"<feature_tree>(.*?)</feature_tree>", text, re.S)
    if not m:
        raise ParseError("no <feature_tree>")
    stack = []          # (depth, node)
    root = None
    for raw in m.group(1).split("\n"):
        if not raw.strip():
            continue
        body = raw.lstrip("\t ")
        depth = len(raw) - len(body)
        g = _GROUP.match(body)
        if g:
            node = SxfmNode("g", None, None, (int(g.group(2)), g.group(3)))
        else:
            f = _FEAT.match(body)
            if not f:
                raise ParseError(f"bad tree line {raw!r}")
            node = SxfmNode(f.group(1) or "c", f.group(2).strip(), f.group(3).strip())
        while stack and stack[-1][0] >= depth:
            stack.pop()
        if node.kind == "r":
            if root is not None or stack:
                raise ParseError("second root")
            root = node
        else:
            if not stack:
                raise ParseError(f"line without parent {raw!r}")
            parent = stack[-1][1]
            if (node.kind == "c") != (parent.kind == "g"):
                raise ParseError(f"grouped/solitary mismatch at {raw!r}")
            parent.children.append(node)
        stack.append((depth, node))
    if root is None:
        raise ParseError("no root")
    clauses = []
    c = re.search(r"<constraints>(.*?)</constraints>", text, re.S)
    if c:
        for raw in c.group(1).split("\n"):
            if not raw.strip():
                continue
            name, _, body = raw.strip().partition(":")
            lits = []
            for lit in body.split(" or "):
                lit = lit.strip()
                if not lit:
                    raise ParseError(f"empty literal in {raw!r}")
                neg = lit.startswith("~")
                lits.append((lit[1:].strip() if neg else lit, not neg))
            clauses.append(lits)
    return root, clauses


def sxfm_ids(root):
    out = []

    def rec(n):
        if n.kind != "g":
            out.append(n.fid)
        for c in n.children:
            rec(c)
    rec(root)
    return out


def sxfm_accepts(root, clauses, sel):
    """sel: set of feature ids."""
    if root.fid not in sel:
        return False

    def ok(node, owner_id):
        # node is a feature node; owner_id its nearest feature ancestor
        me = node.fid in sel
        if me and owner_id is not None and owner_id not in sel:
            return False
        for ch in node.children:
            if ch.kind == "g":
                k = sum(1 for c in ch.children if c.fid in sel)
                lo, hi = ch.card
                hi = len(ch.children) if hi == "*" else int(hi)
                if me and not lo <= k <= hi:
                    return False
                if not me and k:
                    return False
                for c in ch.children:
                    if not ok(c, node.fid):
                        return False
            else:
                if ch.kind == "m" and me and ch.fid not in sel:
                    return False
                if not ok(ch, node.fid):
                    return False
        return True

    if not ok(root, None):
        return False
    for lits in clauses:
        if not any((name in sel) == pos for name, pos in lits):
            return False
    return True


# ====================================================================== propositional .exp
_TOK = re.compile(r"\s*(<->|->|\(|\)|[^\s()]+)")
PREC = {"<->": 1, "->": 2, "or": 3, "XOR": 3, "and": 4}


def tokenize(line):
    pos, out = 0, []
    while pos < len(line):
        m = _TOK.match(line, pos)
        if not m:
            if line[pos:].strip() == "":
                break
            raise ParseError(f"cannot tokenize {line[pos:]!r}")
        out.append(m.group(1))
        pos = m.end()
    return out


def parse_formula(tokens):
    pos = [0]

    def peek():
        return tokens[pos[0]] if pos[0] < len(tokens) else None

    def take():
        t = peek()
        pos[0] += 1
        return t

    def unary():
        t = take()
        if t is None:
            raise ParseError("unexpected end")
        if t == "not":
            return ("not", unary())
        if t == "(":
            e = binary(1)
            if take() != ")":
                raise ParseError("missing )")
            return e
        if t in PREC or t == ")":
            raise ParseError(f"unexpected {t!r}")
        return ("var", t)

    def binary(min_prec):
        left = unary()
        while True:
            t = peek()
            if t not in PREC or PREC[t] < min_prec:
                return left
            take()
            # -> is right associative, the others left associative
            right = binary(PREC[t] if t == "->" else PREC[t] + 1)
            left = (t, left, right)

    e = binary(1)
    if peek() is not None:
        raise ParseError(f"trailing tokens {tokens[pos[0]:]!r}")
    return e


def formula_vars(e, acc):
    stack = [e]
    while stack:
        x = stack.pop()
        if x[0] == "var":
            acc.add(x[1])
        else:
            stack.extend(x[1:])
    return acc


def _combine(op, a, b):
    if op == "and":
        return a and b
    if op == "or":
        return a or b
    if op == "XOR":
        return a != b
    if op == "->":
        return (not a) or b
    if op == "<->":
        return a == b
    raise ParseError(op)


def eval_formula(e, env):
    """Iterative along the left spine: the exports contain left-nested chains of tens of thousands of operands."""
    spine = []
    while e[0] not in ("var", "not"):
        spine.append(e)
        e = e[1]
    val = env[e[1]] if e[0] == "var" else (not eval_formula(e[1], env))
    for node in reversed(spine):
        val = _combine(node[0], val, eval_formula(node[2], env))
    return val


def parse_exp(text):
    return [parse_formula(tokenize(line)) for line in text.split("\n") if line.strip()]


def exp_accepts(formulas, sel, known):
    """Extra variables (not in `known`) are existentially quantified."""
    extra = set()
    for f in formulas:
        formula_vars(f, extra)
    extra = sorted(extra - set(known))
    if len(extra) > 8:
        raise ParseError(f"too many unknown variables: {extra[:10]}")
    base = {n: (n in sel) for n in known}
    for bits in itertools.product((False, True), repeat=len(extra)):
        env = dict(base)
        env.update(zip(extra, bits))
        if all(eval_formula(f, env) for f in formulas):
            return True
    return False


# ====================================================================== Clafer subset
_NAME = r'"[^"]*"|[^\s\[\]()?:"]+'
_CLAFER_LINE = re.compile(rf'^(?:(xor|or|mux|\d+\.\.(?:\d+|\*))\s+)?({_NAME})(\s*:\s*({_NAME}))?(\s*\?)?\s*$')
_ATTR_LINE = re.compile(rf'^\[\s*({_NAME})\s*=\s*(.*)\]\s*$')
_CTOK = re.compile(rf'\s*(<=>|=>|&&|\|\||!|\(|\)|{_NAME})')
CL_PREC = {"<=>": 1, "=>": 2, "||": 3, "xor": 4, "&&": 5}


class Clafer:
    def __init__(self, spelling, group, optional, super_):
        self.spelling, self.group, self.optional, self.super_ = spelling, group, optional, super_
        self.name = spelling[1:-1] if spelling.startswith('"') else spelling
        self.children, self.attrs = [], []


def parse_clafer(text):
    """-> dict(root=Clafer, attr_decls=[spelling], constraints=[expr], instance=(name, type), problems=[...])"""
    lines = text.split("\n")
    attr_decls, constraints, problems = [], [], []
    root = None
    instance = None
    stack = []
    mode = None
    # the feature hierarchy is the abstract clafer the instance line (last top-level `X : Y`) instantiates; another
    # top-level abstract clafer, whatever its name, is the helper that declares the attributes
    root_spelling = None
    for raw in lines:
        m = re.match(rf'^({_NAME})\s*:\s*({_NAME})\s*$', raw) if raw and raw[0] not in "\t[" and not raw.startswith("abstract ") else None
        if m:
            root_spelling = m.group(2)
    tops = [ln[len("abstract "):].strip() for ln in lines if ln.startswith("abstract ")]
    if len(tops) != len(set(t.split(":")[0].strip() for t in tops)):
        raise ParseError(f"two top-level abstract clafers with one name: {tops}")
    attr_block = None
    for raw in lines:
        if not raw.strip():
            continue
        body = raw.lstrip("\t")
        depth = len(raw) - len(body)
        if depth == 0 and body.startswith("abstract "):
            rest = body[len("abstract "):].strip()
            m = _CLAFER_LINE.match(rest)
            if m and m.group(2) != root_spelling and m.group(4) is None and attr_block is None:
                attr_block = m.group(2)
                mode = "attrdecl"
                continue
            if not m:
                raise ParseError(f"bad abstract clafer line {raw!r}")
            if root is not None:
                raise ParseError("two abstract feature hierarchies")
            root = Clafer(m.group(2), m.group(1), False, m.group(4))
            stack = [(0, root)]
            mode = "tree"
            continue
        if depth == 0 and body.startswith("["):
            constraints.append(parse_clafer_expr(body.strip()[1:-1]) if body.strip().endswith("]") else None)
            if constraints[-1] is None:
                raise ParseError(f"bad constraint line {raw!r}")
            mode = "top"
            continue
        if depth == 0:
            m = re.match(rf'^({_NAME})\s*:\s*({_NAME})\s*$', body)
            if not m:
                raise ParseError(f"unexpected top-level line {raw!r}")
            instance = (m.group(1), m.group(2))
            mode = "top"
            continue
        if mode == "attrdecl":
            m = re.match(r'^(.*?)\s*->\s*(\w*)\s*$', body)
            if not m:
                raise ParseError(f"bad attribute declaration {raw!r}")
            attr_decls.append((m.group(1), m.group(2)))
            continue
        if mode != "tree":
            raise ParseError(f"indented line outside a clafer {raw!r}")
        while stack and stack[-1][0] >= depth:
            stack.pop()
        if not stack:
            raise ParseError(f"line without parent {raw!r}")
        parent = stack[-1][1]
        a = _ATTR_LINE.match(body)
        if a:
            parent.attrs.append((a.group(1), a.group(2).strip()))
            continue
        m = _CLAFER_LINE.match(body)
        if not m:
            raise ParseError(f"bad clafer line {raw!r}")
        node = Clafer(m.group(2), m.group(1), bool(m.group(5)), m.group(4))
        parent.children.append(node)
        stack.append((depth, node))
    if root is None:
        raise ParseError("no abstract feature hierarchy")
    return {"root": root, "attr_decls": attr_decls, "constraints": constraints, "instance": instance, "problems": problems,
            "attr_block": attr_block}


def parse_clafer_expr(s):
    tokens, pos = [], 0
    while pos < len(s):
        m = _CTOK.match(s, pos)
        if not m:
            if not s[pos:].strip():
                break
            raise ParseError(f"cannot tokenize constraint at {s[pos:]!r}")
        tokens.append(m.group(1))
        pos = m.end()
    idx = [0]

    def peek():
        return tokens[idx[0]] if idx[0] < len(tokens) else None

    def take():
        t = peek()
        idx[0] += 1
        return t

    def unary():
        t = take()
        if t is None:
            raise ParseError("unexpected end of constraint")
        if t in ("!", "not"):
            return ("not", unary())
        if t == "(":
            e = binary(1)
            if take() != ")":
                raise ParseError("missing )")
            return e
        if t in CL_PREC or t == ")":
            raise ParseError(f"unexpected {t!r} in constraint")
        return ("var", t)

    def binary(min_prec):
        left = unary()
        while True:
            t = peek()
            if t not in CL_PREC or CL_PREC[t] < min_prec:
                return left
            take()
            right = binary(CL_PREC[t] if t == "=>" else CL_PREC[t] + 1)
            left = (t, left, right)

    e = binary(1)
    if peek() is not None:
        raise ParseError(f"trailing tokens in constraint: {tokens[idx[0]:]!r}")
    return e


def clafer_features(root):
    out = []

    def rec(n):
        out.append(n)
        for c in n.children:
            rec(c)
    rec(root)
    return out


def clafer_eval(e, env):
    op = e[0]
    if op == "var":
        return env[e[1]]
    if op == "not":
        return not clafer_eval(e[1], env)
    a, b = clafer_eval(e[1], env), clafer_eval(e[2], env)
    return {"&&": a and b, "||": a or b, "xor": a != b, "=>": (not a) or b, "<=>": a == b}[op]


def clafer_vars(e, acc):
    if e[0] == "var":
        acc.add(e[1])
    else:
        for s in e[1:]:
            clafer_vars(s, acc)
    return acc


def clafer_accepts(doc, sel):
    """sel: set of feature names (unquoted).  Clafer semantics of the emitted subset."""
    root = doc["root"]
    if root.name not in sel:
        return False

    def ok(node):
        me = node.name in sel
        k = sum(1 for c in node.children if c.name in sel)
        if not me and k:
            return False
        if me:
            if node.group is None:
                for c in node.children:
                    if not c.optional and c.name not in sel:
                        return False
            else:
                n = len(node.children)
                if node.group == "xor":
                    lo, hi = 1, 1
                elif node.group == "or":
                    lo, hi = 1, n
                elif node.group == "mux":
                    lo, hi = 0, 1
                else:
                    a, b = node.group.split("..")
                    lo, hi = int(a), (n if b == "*" else int(b))
                if not lo <= k <= hi:
                    return False
        return all(ok(c) for c in node.children)

    if not ok(root):
        return False
    spell = {f.spelling: f.name for f in clafer_features(root)}
    env = {sp: (nm in sel) for sp, nm in spell.items()}
    for e in doc["constraints"]:
        if not clafer_eval(e, env):      # KeyError for undeclared spellings is handled by the caller
            return False
    return True
