"""Shared oracles for reader output and write/read cycles (C01, C02, C05-C09)."""
from vf import build, logic
from vf.oracle import Raised, lib

UNARY_OPS = ("NOT", "LEN", "FLOOR", "CEIL")
MAYBE_UNARY = ("SUM", "AVG")          # UVL allows one-argument sum/avg


def wellformed(obs, pid):
    """C02 invariants on an observation (identity facts were recorded by build.observe)."""
    out = []
    for p in obs["problems"]:
        out.append((f"{pid}.wf.not-a-tree", p))
    feats = obs["features"]
    names = [f["name"] for f in feats]
    if len(names) != len(set(names)):
        dup = sorted({n for n in names if names.count(n) > 1}, key=repr)
        out.append((f"{pid}.wf.duplicate-names", repr(dup[:5])))
    for i, f in enumerate(feats):
        if i == 0:
            if f["parent"] is not None:
                out.append((f"{pid}.wf.root-has-parent", repr(f["parent"])))
        elif not f["parent_is_owner"]:
            out.append((f"{pid}.wf.feature-parent-is-not-owner", f"{f['name']!r}: parent attribute {f['parent']!r}"))
        if not isinstance(f["name"], str):
            out.append((f"{pid}.wf.name-not-str", repr(f["name"])))
        for r in f["rels"]:
            if not r["parent_ok"]:
                out.append((f"{pid}.wf.relation-parent-is-not-owner", f"relation of {f['name']!r}"))
            if not r["children"]:
                out.append((f"{pid}.wf.empty-relation", f"relation of {f['name']!r}"))
            if not r["child_parent_ok"]:
                out.append((f"{pid}.wf.child-parent-is-not-owner", f"children {r['children']!r:.80} of {f['name']!r}"))
        for a in f["attrs"]:
            if not a["parent_ok"]:
                out.append((f"{pid}.wf.attribute-parent-is-not-owner", f"{f['name']!r}.{a['name']!r}"))
    return out


def strict_form(e):
    """None when e is in the form the library consumes, else a description."""
    if e[0] in logic.LEAF:
        if e[0] in ("B", "X"):
            return f"term of unexpected type {e!r}"
        return None
    if e[0] in UNARY_OPS:
        if len(e) != 2:
            return f"{e[0]} with {len(e) - 1} operands"
    elif e[0] in MAYBE_UNARY:
        pass
    elif len(e) != 3:
        return f"{e[0]} with {len(e) - 1} operands"
    for s in e[1:]:
        r = strict_form(s)
        if r:
            return r
    return None


def constraint_exprs(fm, pid, out):
    """Observed constraint trees as spec expressions; malformed trees are reported."""
    exprs = []
    for i, c in enumerate(fm.ctcs):
        try:
            if c.ast is None or c.ast.root is None:
                raise ValueError("constraint without an expression tree (root is None)")
            e = build.node_to_expr(c.ast.root)
        except (ValueError, AttributeError) as err:
            out.append((f"{pid}.ctc.malformed-tree", f"constraint #{i}: {err}"))
            exprs.append(None)
            continue
        bad = strict_form(e)
        if bad:
            out.append((f"{pid}.ctc.malformed-tree", f"constraint #{i}: {bad}"))
            exprs.append(None)
            continue
        exprs.append(e)
    return exprs


def usable_constraints(fm, pid, out, expected_refs=None):
    """C02: get_features returns exactly the written names; traversal helpers do not raise."""
    exprs = constraint_exprs(fm, pid, out)
    for i, (c, e) in enumerate(zip(fm.ctcs, exprs)):
        for meth in ("get_features",):
            got = lib(getattr(c, meth))
            if isinstance(got, Raised):
                out.append((f"{pid}.ctc.{meth}.raised:{got.label}", got.text))
                continue
            if e is not None and not logic.is_aggregation(e):
                want = logic.refs(e) if expected_refs is None else expected_refs[i]
                if set(got) != want:
                    out.append((f"{pid}.ctc.get_features", f"constraint #{i}: expected {sorted(want)}, got {sorted(got)}"))
        for meth in ("get_operators", "get_operands", "pretty_str", "__str__"):
            if e is not None and meth == "pretty_str" and _has_unary_aggregate(e):
                continue     # core pretty_str cannot print one-argument aggregates (dependency, see DESIGN)
            got = lib(getattr(c.ast, meth))
            if isinstance(got, Raised):
                out.append((f"{pid}.ctc.{meth}.raised:{got.label}", got.text))
    return exprs


def _has_unary_aggregate(e):
    if e[0] in logic.LEAF:
        return False
    if e[0] in logic.AGGREGATE and len(e) == 2:
        return True
    return any(_has_unary_aggregate(s) for s in e[1:])


def tree_of_spec(model):
    names = build.names(model)
    rels = sorted((o["name"], tuple(sorted(c["name"] for c in r["children"])), r["min"], r["max"])
                  for r, o in build.iter_rels(model["root"]))
    return names, rels


def tree_of_obs(obs):
    names = [f["name"] for f in obs["features"]]
    rels = sorted((f["name"], tuple(sorted(r["children"])), r["min"], r["max"])
                  for f in obs["features"] for r in f["rels"])
    return names, rels


def same_tree(model, obs, pid):
    out = []
    n1, r1 = tree_of_spec(model)
    try:
        n2, r2 = tree_of_obs(obs)
    except TypeError:
        return [(f"{pid}.names", "non-string names")]
    if obs["root"] != model["root"]["name"]:
        out.append((f"{pid}.root", f"expected {model['root']['name']!r}, got {obs['root']!r}"))
    if sorted(n1) != sorted(n2):
        missing = sorted(set(n1) - set(n2))
        extra = sorted(set(n2) - set(n1))
        out.append((f"{pid}.names", f"missing {missing[:6]!r}, unexpected {extra[:6]!r}"))
    elif r1 != r2:
        d1 = [r for r in r1 if r not in r2]
        d2 = [r for r in r2 if r not in r1]
        out.append((f"{pid}.relations", f"expected {d1[:4]!r}, got {d2[:4]!r}"))
    return out


def spec_attr_values(f):
    return {a["name"]: build.obs_value(build.thaw(a["value"])) for a in f["attrs"] if "value" in a}


def compare_flags_attrs(model, obs, pid, check_types=True, check_fcard=True, check_abstract=True, check_attrs=True):
    out = []
    by = {f["name"]: f for f in obs["features"]}
    for f, _ in build.iter_feats(model["root"]):
        o = by.get(f["name"])
        if o is None:
            continue
        if check_abstract and o["abstract"] != {"bool": bool(f["abstract"])}:
            out.append((f"{pid}.abstract", f"{f['name']!r}: expected {f['abstract']!r}, got {o['abstract']!r}"))
        if check_types and o["ftype"] != f["ftype"]:
            out.append((f"{pid}.feature-type", f"{f['name']!r}: expected {f['ftype']}, got {o['ftype']}"))
        if check_fcard and list(o["fcard"]) != list(f["fcard"] or [1, 1]):
            out.append((f"{pid}.feature-cardinality", f"{f['name']!r}: expected {f['fcard'] or [1, 1]}, got {o['fcard']}"))
        if check_attrs:
            want = spec_attr_values(f)
            got = {}
            for a in o["attrs"]:
                if a["name"] in got:
                    out.append((f"{pid}.attr-duplicate", f"{f['name']!r}.{a['name']!r}"))
                got[a["name"]] = a["default"]
            if set(want) != set(got):
                out.append((f"{pid}.attr-names", f"{f['name']!r}: expected {sorted(want)!r}, got {sorted(got)!r}"))
            else:
                for k in want:
                    if want[k] != got[k]:
                        out.append((f"{pid}.attr-value", f"{f['name']!r}.{k!r}: expected {want[k]!r}, got {got[k]!r}"))
    return out


def run_cycles(fm0, writer, reader, sc, ext, n, pid, binary=False):
    """text_k = write(m_{k-1}); m_k = read(text_k).  Returns (out, texts, models).

    writer(path, fm) -> returned value; reader(path) -> fm.  Checks: returned value equals the file
    content; text and observation idempotent from k = 1."""
    out = []
    texts, models, obss = [], [], []
    cur = fm0
    path = sc.path(f"model.{ext}")
    import zlib
    obs0 = build.observe(fm0)
    if zlib.crc32(repr([f["name"] for f in obs0["features"]]).encode("utf-8", "replace")) % 4 == 0:
        path = sc.relative(f"model.{ext}")       # a bare file name in the working directory (no directory part at all)
    # a call that fails in the middle must leave nothing behind: the model plus one arithmetic constraint over an
    # attribute reference is something most writers cannot express (they raise); the outcome is ignored
    poison = _poison_twin(fm0)
    if poison is not None:
        lib(writer, path, poison)
    # a decoy model is written and read at the very same path first: a reader or writer that remembers what it
    # did for a path (or a file left open) would hand the decoy back in cycle 1
    decoy = build.build({"root": build.feat("Decoy", [build.rel(0, 1, [build.feat("DecoyChild")])]), "ctcs": []})
    if not isinstance(lib(writer, path, decoy), Raised):
        lib(reader, path)
    # ... and then a twin of the model itself whose attribute values have neighbouring types (True <-> 1, 2 <-> 2.0):
    # Python calls these equal, so a writer that compares what is on disk with what it is about to write, or a
    # cache keyed on values, takes the stale file for the model
    twin = _type_confused_twin(fm0)
    if twin is not None:
        lib(writer, path, twin)
    for k in range(1, n + 1):
        ret = lib(writer, path, cur)
        if isinstance(ret, Raised):
            out.append((f"{pid}.writer-raised:{ret.label}", f"cycle {k}: {ret.text}"))
            break
        with open(path, "rb") as fh:
            data = fh.read()
        if binary:
            same = ret == data
        else:
            try:
                same = isinstance(ret, str) and ret == data.decode("utf-8")
            except UnicodeDecodeError:
                same = False
                out.append((f"{pid}.file-not-utf8", f"cycle {k}"))
        if not same:
            out.append((f"{pid}.returned!=file", f"cycle {k}"))
        texts.append(data)
        m = lib(reader, path)
        if isinstance(m, Raised):
            out.append((f"{pid}.reader-raised:{m.label}", f"cycle {k}: {m.text}"))
            break
        models.append(m)
        obss.append(build.observe(m))
        cur = m
        if k >= 2:
            # text_k is written from m_{k-1}; m_1 may legitimately be an equivalent form of m_0
            # (e.g. FeatureIDE <eq> read back as two implications), so texts are compared from
            # cycle 2 on, models from cycle 1 on.
            if k >= 3 and texts[k - 1] != texts[k - 2]:
                out.append((f"{pid}.text-not-idempotent", f"cycle {k} text differs from cycle {k - 1}: {_first_diff(texts[k - 2], texts[k - 1])}"))
            if obss[k - 1] != obss[k - 2]:
                out.append((f"{pid}.model-not-idempotent", f"cycle {k} model differs from cycle {k - 1}: {_first_obs_diff(obss[k - 2], obss[k - 1])}"))
    return out, texts, models, obss


def _poison_twin(fm):
    snap = build.observe(fm)
    if snap.get("problems"):
        return None
    try:
        spec = build.spec_from_observation(snap)
        spec["ctcs"] = spec["ctcs"] + [{"name": "Poison", "ast": ["GREATER", ["ADD", ["T", spec["root"]["name"] + ".cost"], ["I", 1]], ["I", 3]]}]
        return build.build(spec)
    except Exception:  # noqa: BLE001 - only a decoy
        return None


def _type_confused_twin(fm):
    snap = build.observe(fm)
    if snap.get("problems"):
        return None
    try:
        spec = build.spec_from_observation(snap)
    except (KeyError, ValueError, TypeError):
        return None
    changed = [False]

    def conf(v):
        if isinstance(v, bool):
            changed[0] = True
            return int(v)
        if isinstance(v, int):
            changed[0] = True
            return {"$float": repr(float(v))} if abs(v) < 2 ** 53 else v
        if isinstance(v, dict) and set(v) == {"$float"}:
            f = float(v["$float"])
            if f == int(f) and abs(f) < 2 ** 53:
                changed[0] = True
                return int(f) if f not in (0.0, 1.0) else bool(f)
            return v
        if isinstance(v, list):
            return [conf(x) for x in v]
        if isinstance(v, dict):
            return {k: conf(x) for k, x in v.items()}
        return v
    for f, _ in build.iter_feats(spec["root"]):
        for a in f["attrs"]:
            if "value" in a:
                a["value"] = conf(a["value"])
    if not changed[0]:
        return None
    try:
        return build.build(spec)
    except Exception:  # noqa: BLE001 - the twin is only a decoy
        return None


def _first_diff(a: bytes, b: bytes) -> str:
    for i, (x, y) in enumerate(zip(a, b)):
        if x != y:
            return f"at byte {i}: {a[max(0, i - 20):i + 20]!r} vs {b[max(0, i - 20):i + 20]!r}"
    return f"lengths {len(a)} vs {len(b)}"


def _first_obs_diff(a, b) -> str:
    if a["features"] != b["features"]:
        for x, y in zip(a["features"], b["features"]):
            if x != y:
                keys = [k for k in x if x[k] != y.get(k)]
                return f"feature {x['name']!r} differs in {keys}: {[x[k] for k in keys]!r:.150} vs {[y.get(k) for k in keys]!r:.150}"
        return "feature lists differ in length"
    for i, (x, y) in enumerate(zip(a["ctcs"], b["ctcs"])):
        if x != y:
            return f"constraint #{i}: {x!r:.150} vs {y!r:.150}"
    return "constraint lists differ in length"
