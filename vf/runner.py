"""Sharded runner: Hypothesis campaigns + enumerations, known findings, replay, evidence."""
import collections
import hashlib
import importlib
import json
import multiprocessing as mp
import os
import sys
import time
import traceback

from vf import env

VERIF = env.VERIF_DIR
NEW_DIR = os.path.join(VERIF, "replays", "new")
REGRESS_DIR = os.path.join(VERIF, "replays", "regress")
KNOWN_FILE = os.path.join(VERIF, "known_findings.json")
NSHARDS_DEFAULT = 16
MAX_ROUNDS = 6


class Found(Exception):
    """Raised inside a Hypothesis test body when an unlisted discrepancy is seen."""


class CaseTimeout(BaseException):
    """Raised by the watchdog inside a case (BaseException so that oracle.lib does not turn it into data)."""


def case_time_limit(tier):
    """Seconds one case may take.  On the unchanged tree the slowest cases need seconds (a few tens under full load);
    the limit is two orders of magnitude above that, so it only triggers when the code under test does not return."""
    return int(os.environ.get("VF_CASE_TIMEOUT", "600" if tier == "quick" else "1500"))


class Sub:
    """One sub-check of a property.

    gen(tier)            -> Hypothesis strategy producing JSON-serialisable cases, or None
    enum(tier, seed)     -> list of cases (finite domain / corpus), or None
    check(case)          -> list of (kind, detail) discrepancies  (empty = property held)
    nontrivial(case)     -> bool
    classes(case)        -> iterable of labels for the generator-health histogram
    n                    -> {"quick": cases per shard, "thorough": ...} for gen
    """

    def __init__(self, name, check, gen=None, enum=None, nontrivial=None, classes=None,
                 n=None, shards=None, exhaustive=False, essential=None, min_nontrivial=0.01,
                 shrink_budget=None):
        self.name = name
        self.check = check
        self.gen = gen
        self.enum = enum
        self.nontrivial = nontrivial or (lambda case: True)
        self.classes = classes or (lambda case: ())
        self.n = n or {"quick": 100, "thorough": 1000}
        self.shards = shards or {"quick": NSHARDS_DEFAULT, "thorough": NSHARDS_DEFAULT}
        self.exhaustive = exhaustive
        self.essential = essential or []        # class labels that must be >= 1 % of cases
        self.min_nontrivial = min_nontrivial
        self.shrink_budget = shrink_budget or {"quick": 25.0, "thorough": 120.0}


class _deep:
    """Cases may nest deeper than the interpreter's default recursion limit allows json to follow; the limit is
    raised only around (de)serialisation so that the code under test still runs under the default."""

    def __enter__(self):
        self.old = sys.getrecursionlimit()
        sys.setrecursionlimit(max(self.old, 20000))

    def __exit__(self, *exc):
        sys.setrecursionlimit(self.old)


def dumps(obj, **kw) -> str:
    with _deep():
        return json.dumps(obj, **kw)


def digest(case) -> str:
    return hashlib.sha1(dumps(case, sort_keys=True, default=str).encode()).hexdigest()


def kind_slug(kind: str) -> str:
    return "".join(ch if ch.isalnum() or ch in "._-" else "_" for ch in kind)[:80]


def load_prop(pid: str):
    return importlib.import_module(f"vf.props.{pid.lower()}")


# ------------------------------------------------------------------ known findings
def load_findings(pid: str):
    if not os.path.exists(KNOWN_FILE):
        return []
    with open(KNOWN_FILE, encoding="utf-8") as fh:
        data = json.load(fh)
    return [f for f in data.get("findings", []) if f["property"] == pid]


def finding_matches(fnd, sub_name, kind, case) -> bool:
    from vf import findings as fmod
    if fnd["status"] != "open":
        return False
    if fnd["kind"] != kind:
        return False
    if fnd.get("sub") and fnd["sub"] != sub_name:
        return False
    trig = getattr(fmod, fnd["trigger"])
    return bool(trig(case))


# ------------------------------------------------------------------ shard worker
OPT_PREFIX = "under-python-OO:"


def _run_opt_job(job):
    """One extra job per sub-check runs a sample of its cases in an interpreter started with -OO (assert statements
    and docstrings compiled away): code that does work inside an assert, or reads __doc__, only fails there."""
    import subprocess
    environ = dict(os.environ, VF_OPT_CHILD="1", PYTHONPATH=VERIF + os.pathsep + os.environ.get("PYTHONPATH", ""))
    p = subprocess.run([sys.executable, "-OO", "-m", "vf.optshard", dumps(job)], capture_output=True, text=True,
                       env=environ, cwd=VERIF, timeout=3600)
    try:
        with _deep():
            out = json.loads(p.stdout[p.stdout.index("\x00") + 1:])
    except (ValueError, IndexError):
        return {"sub": job["sub"], "shard": job["shard"], "evaluations": 0, "digests": [], "classes": {}, "samples": [],
                "failures": [], "known": {}, "budget_hit": False, "rounds": 0, "wall": 0.0,
                "harness": "optimised-interpreter child failed:\n" + p.stderr[-3000:]}
    for f in out["failures"]:
        f["kind"] = OPT_PREFIX + f["kind"]
    out["classes"] = {("_opt" + k if k.startswith("_") else k): v for k, v in out["classes"].items()}
    out["classes"]["under-python-OO"] = out["evaluations"]
    out["digests"] = []
    return out


def _run_shard(job):
    """Runs in a fresh process.  job = dict(pid, sub, tier, seed, shard, nshards)."""
    if job.get("opt") and os.environ.get("VF_OPT_CHILD") != "1":
        return _run_opt_job(job)
    t0 = time.time()
    os.environ.setdefault("PYTHONHASHSEED", "0")
    out = {"sub": job["sub"], "shard": job["shard"], "evaluations": 0, "digests": [],
           "classes": {}, "samples": [], "failures": [], "known": {}, "harness": None,
           "budget_hit": False, "rounds": 0}
    cov = _start_coverage(job)
    try:
        env.assert_repo()
        prop = load_prop(job["pid"])
        sub = next(s for s in prop.SUBS if s.name == job["sub"])
        fnds = load_findings(job["pid"])
        st = _ShardState(sub, fnds, job)
        if sub.enum is not None:
            cases = sub.enum(job["tier"], job["seed"])
            if job.get("opt"):
                step = max(1, len(cases) // (30 if job["tier"] == "quick" else 300))
                cases = [c for i, c in enumerate(cases) if i % step == 0]
            for i, case in enumerate(cases):
                if not job.get("opt") and i % job["nshards"] != job["shard"]:
                    continue
                if st.timed_out:
                    break
                st.evaluate(case, collect=True)
        if sub.gen is not None:
            _run_hypothesis(sub, st, job)
        out.update(st.result())
    except SystemExit:
        raise
    except BaseException:  # noqa: BLE001 - anything here is a harness problem
        out["harness"] = traceback.format_exc()
    if cov is not None:
        cov.stop()
        cov.save()
    out["wall"] = time.time() - t0
    return out


def _start_coverage(job):
    """Generator-health aid (tools/coverage_report.sh): with VF_COVERAGE=<dir> every shard records which lines and
    branches of the package under test it executed.  Never used by a registered command."""
    d = os.environ.get("VF_COVERAGE")
    if not d:
        return None
    import coverage
    os.makedirs(d, exist_ok=True)
    cov = coverage.Coverage(data_file=os.path.join(d, f"cov.{job['pid']}.{job['sub']}.{job['shard']}"),
                            branch=True, include=[os.path.join(env.repo_root(), "flamapy", "*")])
    cov.start()
    return cov


class _ShardState:
    def __init__(self, sub, fnds, job):
        self.sub, self.fnds, self.job = sub, fnds, job
        self.evaluations = 0
        self.digests = set()
        self.classes = collections.Counter()
        self.samples = []
        self.failures = {}            # kind -> {"case", "detail", "size", "count"}
        self.known = collections.Counter()
        self.tolerated = set()
        self.harness = None
        self.timed_out = False
        self.fail_fast_after = None   # time after which the body fails without evaluating
        self.current_kind = None

    def evaluate(self, case, collect=False):
        """Run the oracle on a case.  Returns the first untolerated (kind, detail) or None."""
        self.evaluations += 1
        discs = self._check_with_watchdog(case)
        try:
            nt = bool(self.sub.nontrivial(case))
        except Exception:  # noqa: BLE001
            nt = False
        if nt:
            d = digest(case)
            if d not in self.digests:
                self.digests.add(d)
                if len(self.samples) < 3 or (len(self.digests) % 997 == 0 and len(self.samples) < 6):
                    self.samples.append(case)
        for label in self.sub.classes(case):
            self.classes[label] += 1
        self.classes["_all"] += 1
        if nt:
            self.classes["_nontrivial"] += 1
        first = None
        for kind, detail in discs:
            matched = next((f for f in self.fnds if finding_matches(f, self.sub.name, kind, case)), None)
            if matched is not None:
                self.known[matched["id"]] += 1
                continue
            size = len(dumps(case, default=str))
            cur = self.failures.get(kind)
            if cur is None or size < cur["size"]:
                self.failures[kind] = {"case": case, "detail": detail, "size": size,
                                       "count": (cur["count"] if cur else 0)}
            self.failures[kind]["count"] += 1
            if kind in self.tolerated:
                continue
            if first is None:
                first = (kind, detail)
        return None if collect else first

    def _check_with_watchdog(self, case):
        import signal
        limit = case_time_limit(self.job["tier"])

        def on_alarm(signum, frame):
            raise CaseTimeout()
        try:
            old = signal.signal(signal.SIGALRM, on_alarm)
        except (ValueError, AttributeError):          # not the main thread / no SIGALRM: run unguarded
            return self.sub.check(case)
        signal.alarm(limit)
        try:
            return self.sub.check(case)
        except CaseTimeout:
            self.timed_out = True          # no further case of this shard is run (each could hang again)
            return [(f"{self.job['pid']}.did-not-return-within-{limit}s",
                     "the code under test was still running on this case when the watchdog fired (cases of this "
                     "sub-check take seconds on the unchanged tree)")]
        finally:
            signal.alarm(0)
            signal.signal(signal.SIGALRM, old)

    def result(self):
        return {"evaluations": self.evaluations, "digests": sorted(self.digests),
                "classes": dict(self.classes), "samples": self.samples,
                "failures": [{"kind": k, **{x: v[x] for x in ("case", "detail", "count")}}
                             for k, v in self.failures.items()],
                "known": dict(self.known), "harness": self.harness}


def _run_hypothesis(sub, st, job):
    import hypothesis
    from hypothesis import HealthCheck, Phase, given, seed, settings

    tier = job["tier"]
    n = sub.n[tier]
    if job.get("opt"):
        n = max(1, min(n // 10, 40 if tier == "quick" else 400))
    strategy = sub.gen(tier)
    budget = sub.shrink_budget[tier]
    the_seed = int(job["seed"]) * 1000 + job["shard"]

    for _round in range(MAX_ROUNDS):
        st.fail_fast_after = None
        st.current_kind = None

        @seed(the_seed)
        @settings(max_examples=n, database=None, deadline=None, report_multiple_bugs=False,
                  suppress_health_check=[HealthCheck.too_slow, HealthCheck.data_too_large],
                  phases=[Phase.generate, Phase.shrink], print_blob=False)
        @given(strategy)
        def body(case):
            if st.timed_out or (st.fail_fast_after is not None and time.time() > st.fail_fast_after):
                raise Found(st.current_kind)
            try:
                hit = st.evaluate(case)
            except Exception:  # noqa: BLE001 - oracle/harness bug, not a library failure
                st.harness = traceback.format_exc()
                st.fail_fast_after = 0
                st.current_kind = "__harness__"
                raise Found("__harness__")
            if hit is not None:
                if st.fail_fast_after is None:
                    st.fail_fast_after = time.time() + budget
                    st.current_kind = hit[0]
                raise Found(st.current_kind)

        try:
            body()
        except Found:
            pass
        except hypothesis.errors.Flaky:
            # oracle gave different answers for the same input -> harness problem
            if st.current_kind is None:
                st.harness = "Flaky without failure:\n" + traceback.format_exc()
                return
        except hypothesis.errors.FailedHealthCheck:
            st.harness = traceback.format_exc()
            return
        except Exception:  # noqa: BLE001
            # an error inside Hypothesis itself (seen: shrinker ValueError on mixed alphabets).
            # With a failure already recorded this only cuts shrinking short.
            if st.current_kind is None:
                st.harness = traceback.format_exc()
                return
        if st.harness is not None or st.timed_out:
            return
        if st.current_kind is None:
            return                      # clean round: nothing untolerated left
        st.tolerated.add(st.current_kind)
        # every kind seen so far is tolerated in the next round so the search goes behind it
        st.tolerated.update(st.failures.keys())


# ------------------------------------------------------------------ driver
def run_property(pid: str, tier: str, seed: int, only_sub=None) -> int:
    t0 = time.time()
    env.assert_repo()
    prop = load_prop(pid)
    fnds = load_findings(pid)
    violations = []           # (kind, replay_path)
    known_lines = []
    notes = []

    # 1. regress replays (fixed findings suppress nothing) and open-finding repros
    reg = run_regress(pid, prop, fnds)
    violations.extend(reg["violations"])
    known_lines.extend(reg["known_lines"])
    notes.extend(reg["notes"])

    # 2. campaigns
    jobs = []
    for sub in prop.SUBS:
        if only_sub and sub.name != only_sub:
            continue
        k = sub.shards[tier]
        for s in range(k):
            jobs.append({"pid": pid, "sub": sub.name, "tier": tier, "seed": seed, "shard": s, "nshards": k})
        if os.environ.get("VF_NO_OPT") != "1":
            jobs.append({"pid": pid, "sub": sub.name, "tier": tier, "seed": seed, "shard": k, "nshards": k, "opt": True})
    ctx = mp.get_context("spawn")
    nproc = min(int(os.environ.get("VF_PROCS", "16")), max(1, len(jobs)))
    results = []
    if jobs:
        with ctx.Pool(nproc, maxtasksperchild=1) as pool:
            for res in pool.imap_unordered(_run_shard, jobs, chunksize=1):
                results.append(res)

    harness = [r for r in results if r.get("harness")]
    per_sub = {}
    for sub in prop.SUBS:
        rs = [r for r in results if r["sub"] == sub.name]
        if not rs:
            continue
        dig = set()
        classes = collections.Counter()
        samples, fails, known = [], {}, collections.Counter()
        for r in sorted(rs, key=lambda r: r["shard"]):
            dig.update(r["digests"])
            classes.update(r["classes"])
            samples.extend(r["samples"][:2])
            known.update(r["known"])
            for f in r["failures"]:
                cur = fails.get(f["kind"])
                size = len(dumps(f["case"], default=str))
                if cur is None or size < cur["size"]:
                    fails[f["kind"]] = {**f, "size": size, "count": f["count"] + (cur["count"] if cur else 0)}
                else:
                    cur["count"] += f["count"]
        per_sub[sub.name] = {"evaluations": sum(r["evaluations"] for r in rs), "digests": dig,
                             "classes": classes, "samples": samples[:4], "failures": fails,
                             "known": known,
                             "exhaustive": (sub.exhaustive.get(tier, False) if isinstance(sub.exhaustive, dict)
                                            else bool(sub.exhaustive)),
                             "wall": max(r["wall"] for r in rs)}

    # 3. write replays for new violations
    os.makedirs(NEW_DIR, exist_ok=True)
    for fn in os.listdir(NEW_DIR):
        if fn.startswith(pid + "-") and not only_sub:
            os.remove(os.path.join(NEW_DIR, fn))
    for sname, ps in per_sub.items():
        for kind, f in ps["failures"].items():
            payload = {"property": pid, "sub": sname, "kind": kind, "detail": f["detail"],
                       "case": f["case"], "seen": f["count"], "tier": tier, "seed": seed}
            if kind.startswith(OPT_PREFIX):
                payload["python_flags"] = ["-OO"]
            h = digest(payload["case"])[:10]
            path = os.path.join("replays", "new", f"{pid}-{kind_slug(kind)}-{h}.json")
            with open(os.path.join(VERIF, path), "w", encoding="utf-8") as fh:
                fh.write(dumps(payload, indent=1, ensure_ascii=True, default=str))
            violations.append((kind, path))

    # 4. generator health
    health_errors = []
    for sub in prop.SUBS:
        ps = per_sub.get(sub.name)
        if not ps or not ps["classes"].get("_all"):
            continue
        total = ps["classes"]["_all"]
        if ps["classes"].get("_nontrivial", 0) < sub.min_nontrivial * total:
            health_errors.append(f"{sub.name}: non-trivial cases {ps['classes'].get('_nontrivial', 0)}/{total}")
        for label in sub.essential:
            if ps["classes"].get(label, 0) < 0.01 * total:
                health_errors.append(f"{sub.name}: essential class {label!r} {ps['classes'].get(label, 0)}/{total}")

    # 5. evidence
    all_digests = set()
    for sname, ps in per_sub.items():
        all_digests.update(sname + ":" + d for d in ps["digests"])
    evaluations = sum(ps["evaluations"] for ps in per_sub.values()) + reg["evaluations"]
    samples = []
    for sname, ps in per_sub.items():
        for c in ps["samples"][:2]:
            samples.append({"sub": sname, "case": _shorten(c)})
    if not samples:
        samples = reg["samples"][:3]
    known_seen = collections.Counter()
    for ps in per_sub.values():
        known_seen.update(ps["known"])
    evidence = {
        "property_id": pid, "tier": tier, "seed": int(seed), "level": "exploration",
        "coverage": {
            "evaluations": int(evaluations),
            "distinct_nontrivial": len(all_digests),
            "rule": prop.RULE,
            "samples": samples,
            "exhaustive": bool(per_sub) and all(ps["exhaustive"] for ps in per_sub.values()),
            "subchecks": {sname: {"evaluations": ps["evaluations"],
                                  "distinct_nontrivial": len(ps["digests"]),
                                  "exhaustive": ps["exhaustive"],
                                  "classes": dict(ps["classes"]),
                                  "slowest_shard_s": round(ps["wall"], 1)}
                          for sname, ps in per_sub.items()},
            "regress_replays": reg["count"],
            "known_findings_seen": dict(known_seen),
            "known_findings_reproduced": [k for k in known_lines],
            "shards": len(jobs),
            "generator_health_errors": health_errors,
            "notes": notes,
        },
        "assumptions": list(getattr(prop, "ASSUMPTIONS", [])),
        "wall_s": round(time.time() - t0, 2),
        "violations": len(violations),
    }
    os.makedirs(os.path.join(VERIF, "evidence"), exist_ok=True)
    with open(os.path.join(VERIF, "evidence", f"{pid}.json"), "w", encoding="utf-8") as fh:
        fh.write(dumps(evidence, indent=1, ensure_ascii=True, default=str))

    for line in known_lines:
        print(line)
    for n_ in notes:
        print("note:", n_)
    summary = ", ".join(f"{s}={ps['evaluations']}" for s, ps in per_sub.items())
    print(f"{pid} {tier} seed={seed}: evaluations {evaluations} ({summary}); "
          f"distinct non-trivial {len(all_digests)}; wall {evidence['wall_s']}s")
    for r in harness:
        sys.stderr.write(f"harness error in {r['sub']} shard {r['shard']}:\n{r['harness']}\n")
    if violations:
        for kind, path in violations:
            print(f"VIOLATION property={pid} replay={path}")
        return 1
    if harness:
        return env.HARNESS_ERROR
    if health_errors:
        for h in health_errors:
            sys.stderr.write("generator health: " + h + "\n")
        return env.HARNESS_ERROR
    return 0


def _shorten(case, limit=1500):
    s = dumps(case, default=str, ensure_ascii=True)
    if len(s) <= limit:
        return case
    return {"truncated_json": s[:limit] + "...", "full_length": len(s)}


def run_case(prop, sub_name, case):
    sub = next(s for s in prop.SUBS if s.name == sub_name)
    st = _ShardState(sub, [], {"pid": prop.ID, "tier": "quick", "sub": sub_name})
    return st._check_with_watchdog(case)


def run_regress(pid, prop, fnds):
    out = {"violations": [], "known_lines": [], "notes": [], "count": 0, "evaluations": 0, "samples": []}
    # fixed / regression replays: must pass
    if os.path.isdir(REGRESS_DIR):
        for fn in sorted(os.listdir(REGRESS_DIR)):
            if not fn.startswith(pid + "-") or not fn.endswith(".json"):
                continue
            path = os.path.join("replays", "regress", fn)
            with open(os.path.join(VERIF, path), encoding="utf-8") as fh:
                rp = json.load(fh)
            out["count"] += 1
            out["evaluations"] += 1
            if len(out["samples"]) < 3:
                out["samples"].append({"sub": rp["sub"], "case": _shorten(rp["case"])})
            discs = run_case(prop, rp["sub"], rp["case"])
            bad = [(k, d) for k, d in discs
                   if not any(finding_matches(f, rp["sub"], k, rp["case"]) for f in fnds)]
            if bad:
                out["violations"].append((bad[0][0], path))
    # open findings: replay their repro, print KNOWN-FINDING when it still fails
    for f in fnds:
        if f["status"] != "open":
            continue
        with open(os.path.join(VERIF, f["repro"]), encoding="utf-8") as fh:
            rp = json.load(fh)
        out["evaluations"] += 1
        discs = run_case(prop, rp["sub"], rp["case"])
        kinds = [k for k, _ in discs]
        if f["kind"] in kinds:
            out["known_lines"].append(f"KNOWN-FINDING: property={pid} {f['id']}: {f['what']}")
        else:
            out["notes"].append(f"open finding {f['id']} did not reproduce from {f['repro']}")
        for k, d in discs:
            if k != f["kind"] and not any(finding_matches(g, rp["sub"], k, rp["case"]) for g in fnds):
                out["violations"].append((k, f["repro"]))
    return out


def replay(pid: str, path: str) -> int:
    env.assert_repo()
    prop = load_prop(pid)
    fnds = load_findings(pid)
    with open(path, encoding="utf-8") as fh:
        rp = json.load(fh)
    if rp.get("python_flags") and os.environ.get("VF_OPT_CHILD") != "1":
        import subprocess
        environ = dict(os.environ, VF_OPT_CHILD="1", PYTHONPATH=VERIF + os.pathsep + os.environ.get("PYTHONPATH", ""))
        return subprocess.run([sys.executable] + list(rp["python_flags"]) + ["-m", "vf.cli", pid, "--replay", path],
                              env=environ, cwd=VERIF).returncode
    discs = run_case(prop, rp["sub"], rp["case"])
    if rp.get("python_flags"):
        discs = [(OPT_PREFIX + k, d) for k, d in discs]
    rc = 0
    for kind, detail in discs:
        matched = next((f for f in fnds if finding_matches(f, rp["sub"], kind, rp["case"])), None)
        if matched:
            print(f"KNOWN-FINDING: property={pid} {matched['id']}: {matched['what']}")
            continue
        print(f"discrepancy {kind}: {detail}")
        rc = 1
    if rc:
        print(f"VIOLATION property={pid} replay={path}")
    else:
        print(f"{pid}: replay {path} passes ({len(discs)} discrepancies, all listed)" if discs
              else f"{pid}: replay {path} passes")
    return rc
