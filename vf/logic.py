"""Propositional semantics of spec expressions (independent of the library).

Atoms are feature references and, for mixed constraints, maximal non-logical sub-trees (keyed by
their canonical JSON) - so equivalence is decided exactly for the logical skeleton while anything
inside a comparison must survive structurally.
"""
import itertools
import json

LOGICAL = ("NOT", "AND", "OR", "XOR", "IMPLIES", "REQUIRES", "EXCLUDES", "EQUIVALENCE")
BINARY_LOGICAL = LOGICAL[1:]
COMPARISON = ("EQUALS", "LOWER", "GREATER", "LOWER_EQUALS", "GREATER_EQUALS", "NOT_EQUALS")
ARITH = ("ADD", "SUB", "MUL", "DIV")
ARITHMETIC_KIND = COMPARISON + ARITH            # the library's ARITHMETIC_OPERATORS
AGGREGATE = ("SUM", "AVG", "LEN", "FLOOR", "CEIL")
LEAF = ("T", "I", "F", "S", "B", "X")


def canon(e) -> str:
    return json.dumps(e, sort_keys=True, ensure_ascii=True)


def atom_key(e) -> str:
    if e[0] == "T":
        return "ref:" + e[1]
    return "sub:" + canon(e)


def atoms(e, acc=None) -> list:
    """Ordered list of distinct atom keys of e."""
    acc = [] if acc is None else acc
    if e[0] in LOGICAL:
        for s in e[1:]:
            atoms(s, acc)
    else:
        k = atom_key(e)
        if k not in acc:
            acc.append(k)
    return acc


def evaluate(e, env: dict) -> bool:
    op = e[0]
    if op not in LOGICAL:
        return env[atom_key(e)]
    if op == "NOT":
        return not evaluate(e[1], env)
    a = evaluate(e[1], env)
    b = evaluate(e[2], env)
    if op == "AND":
        return a and b
    if op == "OR":
        return a or b
    if op == "XOR":
        return a != b
    if op in ("IMPLIES", "REQUIRES"):
        return (not a) or b
    if op == "EXCLUDES":
        return not (a and b)
    if op == "EQUIVALENCE":
        return a == b
    raise ValueError(op)


def table(e, atom_list) -> tuple:
    out = []
    for bits in itertools.product((False, True), repeat=len(atom_list)):
        out.append(evaluate(e, dict(zip(atom_list, bits))))
    return tuple(out)


EXACT_ATOMS = 16


def _sampled_assignments(al):
    """More than EXACT_ATOMS atoms: a complete table is out of reach, so equivalence is *refuted* on a fixed, input-
    independent family of assignments (all-false, all-true, every one-hot and one-cold vector, every pair-hot vector
    up to 40 atoms, and 6000 vectors of a fixed linear congruential sequence at densities 1/8, 1/2, 7/8).  A difference
    found is a real difference; none found is taken as equivalent (sound for alarms, incomplete for misses)."""
    n = len(al)
    yield dict.fromkeys(al, False)
    yield dict.fromkeys(al, True)
    for i in range(n):
        yield {a: (j == i) for j, a in enumerate(al)}
        yield {a: (j != i) for j, a in enumerate(al)}
    if n <= 40:
        for i in range(n):
            for k in range(i + 1, n):
                yield {a: (j in (i, k)) for j, a in enumerate(al)}
    state = 0x9E3779B97F4A7C15
    for r in range(6000):
        thr = (32, 128, 224)[r % 3]
        env_ = {}
        for a in al:
            state = (state * 6364136223846793005 + 1442695040888963407) & 0xFFFFFFFFFFFFFFFF
            env_[a] = ((state >> 33) & 0xFF) < thr
        yield env_


def equiv(e1, e2, extra_atoms=()) -> bool:
    al = atoms(e1)
    for k in atoms(e2):
        if k not in al:
            al.append(k)
    for k in extra_atoms:
        if k not in al:
            al.append(k)
    if len(al) > EXACT_ATOMS:
        return all(evaluate(e1, env_) == evaluate(e2, env_) for env_ in _sampled_assignments(al))
    return table(e1, al) == table(e2, al)


def equiv_conj(parts: list, e) -> bool:
    """equiv(AND(parts), e) without building a deep conjunction (parts may be thousands)."""
    al = atoms(e)
    for p in parts:
        for k in atoms(p):
            if k not in al:
                al.append(k)
    envs = (_sampled_assignments(al) if len(al) > EXACT_ATOMS else
            (dict(zip(al, bits)) for bits in itertools.product((False, True), repeat=len(al))))
    for env_ in envs:
        if all(evaluate(p, env_) for p in parts) != evaluate(e, env_):
            return False
    return True


def conj(exprs: list):
    """Conjunction of a non-empty list of expressions."""
    out = exprs[0]
    for e in exprs[1:]:
        out = ["AND", out, e]
    return out


def match_lists(specs: list, observed: list):
    """One-to-one matching under equiv between two expression lists.

    Returns None when a perfect matching exists, else a description.  Positional match first,
    then augmenting-path bipartite matching."""
    if len(specs) != len(observed):
        return f"{len(specs)} constraints expected, {len(observed)} found"
    n = len(specs)

    def eq(i, j):
        try:
            return equiv(specs[i], observed[j])
        except (KeyError, ValueError, IndexError, TypeError):
            return False

    if all(eq(i, i) for i in range(n)):
        return None
    adj = [[j for j in range(n) if eq(i, j)] for i in range(n)]
    match_r = [-1] * n

    def try_(i, seen):
        for j in adj[i]:
            if j in seen:
                continue
            seen.add(j)
            if match_r[j] == -1 or try_(match_r[j], seen):
                match_r[j] = i
                return True
        return False

    for i in range(n):
        if not try_(i, set()):
            return f"constraint #{i} {canon(specs[i])} has no equivalent partner among {[canon(o) for o in observed]}"
    return None


# --- kinds, independent of the library -------------------------------------------------
def ops_of(e) -> list:
    if e[0] in LEAF:
        return []
    out = [e[0]]
    for s in e[1:]:
        out.extend(ops_of(s))
    return out


def is_logical(e) -> bool:
    return all(o in LOGICAL for o in ops_of(e))


def is_arithmetic(e) -> bool:
    return any(o in ARITHMETIC_KIND for o in ops_of(e))


def is_aggregation(e) -> bool:
    return any(o in AGGREGATE for o in ops_of(e))


def refs(e) -> set:
    """Feature/attribute references written in e (numbers and string literals excluded)."""
    if e[0] == "T":
        return {e[1]}
    if e[0] in LEAF:
        return set()
    out = set()
    for s in e[1:]:
        out |= refs(s)
    return out


# ---------------------------------------------------------------- pseudo- vs strict-complex backstop
class _TooBig(Exception):
    pass


def _nnf(e, pos, mode):
    """Negation normal form as nested ("AND"|"OR", l, r) / ("L", name, sign); mode = (form for an effective
    equivalence, form for an effective xor), each "C" (conjunctive expansion) or "D" (disjunctive)."""
    op = e[0]
    if op == "T":
        return ("L", e[1], pos)
    if op == "NOT":
        return _nnf(e[1], not pos, mode)
    a, b = e[1], e[2]
    if op in ("IMPLIES", "REQUIRES"):
        return _nnf(["OR", ["NOT", a], b], pos, mode)
    if op == "EXCLUDES":
        return _nnf(["OR", ["NOT", a], ["NOT", b]], pos, mode)
    if op in ("AND", "OR"):
        eff = op if pos else ("OR" if op == "AND" else "AND")
        return (eff, _nnf(a, pos, mode), _nnf(b, pos, mode))
    if op in ("EQUIVALENCE", "XOR"):
        is_eq = (op == "EQUIVALENCE") == pos          # effective equivalence (else effective xor)
        form = mode[0] if is_eq else mode[1]
        if is_eq:
            t = (["AND", ["OR", ["NOT", a], b], ["OR", ["NOT", b], a]] if form == "C"
                 else ["OR", ["AND", a, b], ["AND", ["NOT", a], ["NOT", b]]])
        else:
            t = (["AND", ["OR", a, b], ["OR", ["NOT", a], ["NOT", b]]] if form == "C"
                 else ["OR", ["AND", a, ["NOT", b]], ["AND", ["NOT", a], b]])
        return _nnf(t, True, mode)
    raise ValueError(op)


def _cnf(n, limit=5000):
    if n[0] == "L":
        return [((n[1], n[2]),)]
    left, right = _cnf(n[1], limit), _cnf(n[2], limit)
    if n[0] == "AND":
        out = left + right
    else:
        if len(left) * len(right) > limit:
            raise _TooBig()
        out = [c + d for c in left for d in right]
    if len(out) > limit:
        raise _TooBig()
    return out


def unanimously_pseudo(e):
    """True when each of 16 textbook transformations of the logical formula e into clauses (4 ways of expanding
    equivalence/xor by polarity x with/without merging repeated literals x with/without dropping tautological
    clauses) yields only clauses of the simple shape (two literals, at least one negated).  None when a
    transformation is too big to carry out.  Used one-way only: a constraint that every such transformation turns
    into simple constraints can evidently 'be transformed to a set of simple constraints'."""
    try:
        for mode in ("CC", "CD", "DC", "DD"):
            clauses = _cnf(_nnf(e, True, mode))
            for dedupe in (False, True):
                for drop_taut in (False, True):
                    for c in clauses:
                        lits = list(dict.fromkeys(c)) if dedupe else list(c)
                        if drop_taut and any((n, not s) in lits for n, s in lits):
                            continue
                        if len(lits) != 2 or all(s for _, s in lits):
                            return False
    except _TooBig:
        return None
    return True


def clause_cost(e, limit=400):
    """Number of clauses the library-style transformation of the logical formula e produces (expansion 'CD': equivalence
    as two implications, xor as two conjunctions), or None when it exceeds `limit` - the clause conversion is
    exponential there and analysing such a constraint is a matter of hours, not a property of the result."""
    try:
        return len(_cnf(_nnf(e, True, "CD"), limit))
    except _TooBig:
        return None
    except (ValueError, KeyError, IndexError, TypeError):
        return 0
