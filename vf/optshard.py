"""Child side of the optimised-interpreter sample: python -OO -m vf.optshard '<job json>' -> result JSON after a NUL."""
import json
import sys

from vf import runner


def main():
    import logging
    # the sample also runs with the root logger at DEBUG (records are discarded by a NullHandler): code guarded by
    # isEnabledFor(DEBUG) runs here and nowhere else
    logging.getLogger().addHandler(logging.NullHandler())
    logging.getLogger().setLevel(logging.DEBUG)
    job = json.loads(sys.argv[1])
    out = runner._run_shard(job)
    sys.stdout.write("\x00" + runner.dumps(out, default=str))


if __name__ == "__main__":
    main()
