"""Child side of the optimised-interpreter sample: python -OO -m vf.optshard '<job json>' -> result JSON after a NUL."""
import json
import sys

from vf import runner


def main():
    job = json.loads(sys.argv[1])
    out = runner._run_shard(job)
    sys.stdout.write("\x00" + runner.dumps(out, default=str))


if __name__ == "__main__":
    main()
