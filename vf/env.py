"""Locate the code under test.

The package flamapy.metamodels.fm_metamodel is installed in /venv in editable mode and
resolves to /repo.  When VF_REPO is set (sensitivity runs against a scratch copy) the
editable finder's mapping is redirected *before* the first import.  `assert_repo()` makes
sure the imported package really lives where we think; otherwise the harness exits 2.
"""
import os
import sys

HARNESS_ERROR = 2
VERIF_DIR = os.path.dirname(os.path.dirname(os.path.abspath(__file__)))


def repo_root() -> str:
    return os.path.realpath(os.environ.get("VF_REPO", "/repo"))


def redirect_if_needed() -> None:
    root = os.environ.get("VF_REPO")
    if not root:
        return
    try:
        import __editable___flamapy_fm_2_0_2_dev0_finder as fnd  # type: ignore
    except ImportError:
        return
    path = os.path.join(os.path.realpath(root), "flamapy", "metamodels")
    fnd.MAPPING["flamapy.metamodels"] = path
    fnd.NAMESPACES["flamapy.metamodels"] = [path]


def assert_repo() -> str:
    redirect_if_needed()
    import flamapy.metamodels.fm_metamodel as pkg
    here = os.path.realpath(list(pkg.__path__)[0])
    if not here.startswith(repo_root() + os.sep):
        sys.stderr.write(f"harness error: fm_metamodel imported from {here}, expected under {repo_root()}\n")
        sys.exit(HARNESS_ERROR)
    return here
