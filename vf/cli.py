"""./check <ID> <quick|thorough> | ./check <ID> --replay <file>"""
import os
import sys


def main(argv):
    if len(argv) < 2:
        sys.stderr.write(__doc__ + "\n")
        return 2
    pid = argv[0].upper()
    from vf import runner
    try:
        if argv[1] == "--replay":
            return runner.replay(pid, argv[2])
        tier = argv[1]
        if tier not in ("quick", "thorough"):
            sys.stderr.write(__doc__ + "\n")
            return 2
        seed = int(os.environ.get("VERIF_SEED", "1") or "1")
        only = argv[3] if len(argv) > 3 and argv[2] == "--sub" else None
        return runner.run_property(pid, tier, seed, only_sub=only)
    except SystemExit:
        raise
    except BaseException:  # noqa: BLE001
        import traceback
        sys.stderr.write("harness error:\n" + traceback.format_exc())
        return 2


if __name__ == "__main__":
    sys.exit(main(sys.argv[1:]))
