"""ModelSpec (plain JSON data) -> FeatureModel, and FeatureModel -> observation (plain data).

Spec shapes (all JSON-serialisable; lists instead of tuples):

  model = {"root": feat, "ctcs": [{"name": str, "ast": expr}]}
  feat  = {"name": str, "abstract": bool, "ftype": "BOOLEAN|INTEGER|REAL|STRING",
           "fcard": [min, max] | None, "attrs": [attr],
           "rels": [{"min": int, "max": int, "children": [feat]}]}      max == -1 means '*'
  attr  = {"name": str, "value": v}                                       (UVL/JSON/Clafer style)
        | {"name": str, "ranges": [[lo, hi]..] | None, "elements": [..] | None,
           "default": v, "null": v}                                       (AFM style)
  expr  = ["T", ref] | ["I", int] | ["F", "2.5"] | ["S", "'abc'"]
        | [OP, expr] | [OP, expr, expr]          OP = name of an ASTOperation member

The builder uses the public constructors only.  The observer reads public attributes only and
never calls FeatureModel.get_features()/get_relations() (those are under test).
"""
from typing import Any, Optional

from vf import env

env.redirect_if_needed()

from flamapy.core.models.ast import AST, ASTOperation, Node  # noqa: E402
from flamapy.metamodels.fm_metamodel.models import (  # noqa: E402
    Attribute, Cardinality, Constraint, Domain, Feature, FeatureModel, FeatureType, Range, Relation)

OPS = {op.name: op for op in ASTOperation}
LEAF_TAGS = ("T", "I", "F", "S")


# ---------------------------------------------------------------- spec helpers
def feat(name: str, rels=None, abstract=False, ftype="BOOLEAN", fcard=None, attrs=None) -> dict:
    return {"name": name, "abstract": abstract, "ftype": ftype, "fcard": fcard,
            "attrs": attrs or [], "rels": rels or []}


def rel(cmin: int, cmax: int, children: list) -> dict:
    return {"min": cmin, "max": cmax, "children": children}


def iter_feats(f: dict, parent: Optional[dict] = None):
    """Yield (feature_spec, parent_spec) in pre-order."""
    yield f, parent
    for r in f["rels"]:
        for c in r["children"]:
            yield from iter_feats(c, f)


def iter_rels(f: dict):
    """Yield (relation_spec, owner_spec) in pre-order."""
    for r in f["rels"]:
        yield r, f
        for c in r["children"]:
            yield from iter_rels(c)


def names(model: dict) -> list:
    return [f["name"] for f, _ in iter_feats(model["root"])]


def expr_leaves(e):
    if e[0] in LEAF_TAGS:
        yield e
    else:
        for sub in e[1:]:
            yield from expr_leaves(sub)


def expr_ops(e):
    if e[0] not in LEAF_TAGS:
        yield e[0]
        for sub in e[1:]:
            yield from expr_ops(sub)


def expr_depth(e) -> int:
    if e[0] in LEAF_TAGS:
        return 0
    return 1 + max(expr_depth(s) for s in e[1:])


def expr_refs(e) -> set:
    return {leaf[1] for leaf in expr_leaves(e) if leaf[0] == "T"}


# ---------------------------------------------------------------- builder
def leaf_value(e) -> Any:
    tag, val = e
    if tag == "T" or tag == "S":
        return val
    if tag == "I":
        return int(val)
    if tag == "F":
        return float(val)
    raise ValueError(tag)


def build_node(e) -> Node:
    if e[0] in LEAF_TAGS:
        return Node(leaf_value(e))
    op = OPS[e[0]]
    if len(e) == 2:
        return Node(op, build_node(e[1]))
    return Node(op, build_node(e[1]), build_node(e[2]))


def build_node_shared(e, memo) -> Node:
    """As build_node, but structurally equal operator sub-trees become ONE Node object (a DAG) - what the core's own
    to_cnf produces when it distributes ('(A & B) | !C' -> '(A | !C) & (B | !C)' with a single '!C' node)."""
    import json as _json
    if e[0] in LEAF_TAGS:
        return Node(leaf_value(e))
    key = _json.dumps(e, sort_keys=True)
    if key not in memo:
        op = OPS[e[0]]
        memo[key] = Node(op, build_node_shared(e[1], memo)) if len(e) == 2 else Node(
            op, build_node_shared(e[1], memo), build_node_shared(e[2], memo))
    return memo[key]


def build_constraint(c: dict, share=False) -> Constraint:
    if share:
        return Constraint(c["name"], AST(build_node_shared(c["ast"], {})))
    return Constraint(c["name"], AST(build_node(c["ast"])))


def build_attr(a: dict) -> Attribute:
    if "value" in a:
        return Attribute(a["name"], None, _thaw(a["value"]), None)
    ranges = None if a.get("ranges") is None else [Range(lo, hi) for lo, hi in a["ranges"]]
    elements = None if a.get("elements") is None else list(a["elements"])
    return Attribute(a["name"], Domain(ranges, elements), a.get("default"), a.get("null"))


def _thaw(v):
    """Attribute values are stored in specs as JSON; floats are kept as {"$float": "2.5"} so that
    the replay file is exact."""
    if isinstance(v, dict):
        if set(v) == {"$float"}:
            return float(v["$float"])
        return {k: _thaw(x) for k, x in v.items()}
    if isinstance(v, list):
        return [_thaw(x) for x in v]
    return v


def thaw(v):
    return _thaw(v)


def build_feature(f: dict, style: int = 0) -> Feature:
    """style 0: children first, then Relation(parent, children, ..) + add_relation (what the readers mostly do);
    style 1: the empty relation is registered first and filled with Relation.add_child, children created with
    Feature(parent=...); style 2: relation appended to `relations`, children appended to `children`, parents
    assigned by hand (what XMLReader does).  All three end in the same object graph."""
    kwargs = {}
    if f.get("fcard") is not None:
        kwargs["feature_cardinality"] = Cardinality(f["fcard"][0], f["fcard"][1])
    feature = Feature(f["name"], is_abstract=f.get("abstract", False),
                      feature_type=FeatureType[f.get("ftype", "BOOLEAN")], **kwargs)
    for a in f.get("attrs", []):
        feature.add_attribute(build_attr(a))
    for r in f["rels"]:
        if style == 1:
            rel_ = Relation(feature, [], r["min"], r["max"])
            feature.add_relation(rel_)
            for c in r["children"]:
                child = build_feature(c, style)
                child.parent = feature
                rel_.add_child(child)
        elif style == 2:
            rel_ = Relation(feature, [], r["min"], r["max"])
            feature.relations.append(rel_)
            for c in r["children"]:
                child = build_feature(c, style)
                rel_.children.append(child)
                child.parent = feature
        else:
            children = [build_feature(c, style) for c in r["children"]]
            feature.add_relation(Relation(feature, children, r["min"], r["max"]))
    return feature


def build(model: dict) -> FeatureModel:
    root = build_feature(model["root"], int(model.get("build_style", 0)))
    return FeatureModel(root, [build_constraint(c, share=bool(model.get("share_nodes"))) for c in model.get("ctcs", [])])


def morph(fm: FeatureModel, new_model: dict) -> FeatureModel:
    """Edit `fm` IN PLACE, through the public attributes and methods a user has, until it is the model `new_model`
    describes.  Feature objects are reused by name, Relation objects when owner and child list are unchanged (their
    cardinalities are assigned in place), constraints when their name and tree are unchanged; everything else is
    created.  This is how 'the same model, edited and analysed again' is produced (stale per-object state shows)."""
    by_name = {}
    stack = [fm.root]
    while stack:
        f = stack.pop()
        by_name.setdefault(f.name, f)
        for r in f.relations:
            stack.extend(r.children)

    def place(spec, parent):
        f = by_name.get(spec["name"])
        if f is None:
            f = build_feature({**spec, "rels": []})
        else:
            f.is_abstract = spec.get("abstract", False)
            f.feature_type = FeatureType[spec.get("ftype", "BOOLEAN")]
        old = list(f.relations)
        f.relations = []
        f.parent = parent
        for r in spec["rels"]:
            kids = [place(c, f) for c in r["children"]]
            keep = next((o for o in old if len(o.children) == len(kids) and all(a is b for a, b in zip(o.children, kids))), None)
            if keep is not None:
                old.remove(keep)
                keep.card_min, keep.card_max, keep.parent = r["min"], r["max"], f
                f.add_relation(keep)
            else:
                f.add_relation(Relation(f, kids, r["min"], r["max"]))
        return f

    fm.root = place(new_model["root"], None)
    old_ctcs = list(fm.ctcs)
    fm.ctcs = []
    for c in new_model.get("ctcs", []):
        keep = next((o for o in old_ctcs if o.name == c["name"] and node_to_expr(o.ast.root) == c["ast"]), None)
        same_name = next((o for o in old_ctcs if o.name == c["name"]), None)
        if keep is not None:
            old_ctcs.remove(keep)
            fm.ctcs.append(keep)
        elif same_name is not None:
            # the formula of an existing constraint is replaced through its public `ast` property
            old_ctcs.remove(same_name)
            same_name.ast = AST(build_node(c["ast"]))
            fm.ctcs.append(same_name)
        else:
            fm.ctcs.append(build_constraint(c))
    return fm


# ---------------------------------------------------------------- observer
def obs_value(v, strict=True):
    """Python value -> comparable JSON-ish value that keeps the Python type visible."""
    if isinstance(v, bool):
        return {"bool": v}
    if isinstance(v, int):
        return {"int": v}
    if isinstance(v, float):
        return {"float": repr(v)}
    if isinstance(v, str):
        return {"str": v}
    if v is None:
        return None
    if isinstance(v, list):
        return {"list": [obs_value(x) for x in v]}
    if isinstance(v, tuple):
        return {"tuple": [obs_value(x) for x in v]}
    if isinstance(v, dict):
        return {"map": sorted(([obs_value(k), obs_value(x)] for k, x in v.items()),
                              key=repr)}
    return {"other": f"{type(v).__name__}:{v!r}"}


def obs_node(n) -> Any:
    if n is None:
        return None
    data = n.data
    if isinstance(data, ASTOperation):
        return {"op": data.name, "l": obs_node(n.left), "r": obs_node(n.right)}
    return {"t": obs_value(data), "l": obs_node(n.left), "r": obs_node(n.right)}


def node_to_expr(n, strict=True):
    """Observed Node -> spec expr.  Raises ValueError when the tree is not in the form the rest
    of the library consumes (used by the well-formedness oracle)."""
    data = n.data
    if isinstance(data, ASTOperation):
        if n.left is None:
            raise ValueError(f"operator {data.name} without first operand")
        if n.right is None:
            return [data.name, node_to_expr(n.left)]
        return [data.name, node_to_expr(n.left), node_to_expr(n.right)]
    if n.left is not None or n.right is not None:
        raise ValueError(f"term {data!r} with operands")
    if isinstance(data, bool):
        return ["B", data]
    if isinstance(data, int):
        return ["I", data]
    if isinstance(data, float):
        return ["F", repr(data)]
    if isinstance(data, str):
        return ["S", data] if data.startswith("'") else ["T", data]
    return ["X", repr(data)]


def observe_attr(a, owner) -> dict:
    out = {"name": a.name, "parent_ok": a.parent is owner,
           "default": obs_value(a.default_value), "null": obs_value(a.null_value)}
    if a.domain is None:
        out["domain"] = None
    else:
        out["domain"] = {
            "ranges": [[obs_value(r.min_value), obs_value(r.max_value)] for r in a.domain.range_list],
            "elements": [obs_value(e) for e in a.domain.element_list]}
    return out


def observe(fm, limit: int = 2_000_000) -> dict:
    """Walk the object graph from fm.root through public attributes.

    Returns {"features": [...pre-order...], "ctcs": [...], "problems": [...]}.  Each feature
    entry: name, abstract (Python value shown with type), ftype, fcard, attrs, parent (name or
    None), parent_is_owner (identity), rels: [{min,max,children:[names], parent_ok, child_parent_ok}].
    A walk revisiting an object (not a tree) is reported in problems and cut.
    """
    feats, problems = [], []
    seen = set()
    stack = [(fm.root, None)]
    while stack:
        f, owner = stack.pop()
        if id(f) in seen:
            problems.append(f"feature object {getattr(f, 'name', '?')!r} reached twice")
            continue
        seen.add(id(f))
        if len(seen) > limit:
            problems.append("walk limit")
            break
        card = f.feature_cardinality
        entry = {"name": f.name, "abstract": obs_value(f.is_abstract),
                 "ftype": getattr(f.feature_type, "name", repr(f.feature_type)),
                 "fcard": [card.min, card.max],
                 "attrs": [observe_attr(a, f) for a in f.attributes],
                 "parent": None if f.parent is None else f.parent.name,
                 "parent_is_owner": f.parent is owner,
                 "rels": []}
        nxt = []
        for r in f.relations:
            entry["rels"].append({
                "min": r.card_min, "max": r.card_max,
                "children": [c.name for c in r.children],
                "parent_ok": r.parent is f,
                "child_parent_ok": all(c.parent is f for c in r.children)})
            nxt.extend((c, f) for c in r.children)
        feats.append(entry)
        stack.extend(reversed(nxt))
    ctcs = [{"name": c.name, "ast": obs_node(c.ast.root)} for c in fm.ctcs]
    return {"root": fm.root.name, "features": feats, "ctcs": ctcs, "problems": problems}


def snapshot(fm) -> dict:
    """Strict observation incl. every order and scalar type - for 'does not modify' checks."""
    return observe(fm)


def walk_objects(fm):
    """(features, relations) lists of the actual objects in pre-order (identity based)."""
    feats, rels = [], []
    stack = [fm.root]
    seen = set()
    while stack:
        f = stack.pop()
        if id(f) in seen:
            continue
        seen.add(id(f))
        feats.append(f)
        nxt = []
        for r in f.relations:
            rels.append(r)
            nxt.extend(r.children)
        stack.extend(reversed(nxt))
    return feats, rels


# ---------------------------------------------------------------- observation -> spec
def unobs_value(v):
    """Inverse of obs_value, producing the spec encoding (floats as {"$float": repr})."""
    if v is None:
        return None
    (tag, x), = v.items()
    if tag in ("bool", "int", "str"):
        return x
    if tag == "float":
        return {"$float": x}
    if tag in ("list", "tuple"):
        return [unobs_value(i) for i in x]
    if tag == "map":
        return {unobs_value(k): unobs_value(val) for k, val in x}
    raise ValueError(f"cannot rebuild value {v!r}")


def unobs_node(n):
    if "op" in n:
        if n["r"] is None:
            return [n["op"], unobs_node(n["l"])]
        return [n["op"], unobs_node(n["l"]), unobs_node(n["r"])]
    (tag, x), = n["t"].items()
    if tag == "int":
        return ["I", x]
    if tag == "float":
        return ["F", x]
    if tag == "str":
        return ["S", x] if x.startswith("'") else ["T", x]
    raise ValueError(f"cannot rebuild node {n!r}")


def spec_from_observation(obs: dict) -> dict:
    """Rebuild a ModelSpec from observe(fm) (well-formed trees with unique names only)."""
    by = {}
    for e in obs["features"]:
        attrs = []
        for a in e["attrs"]:
            if a["domain"] is None and a["null"] is None:
                attrs.append({"name": a["name"], "value": unobs_value(a["default"])})
            else:
                dom = a["domain"] or {"ranges": [], "elements": []}
                attrs.append({"name": a["name"],
                              "ranges": [[_plain(unobs_value(lo)), _plain(unobs_value(hi))] for lo, hi in dom["ranges"]],
                              "elements": [_plain(unobs_value(x)) for x in dom["elements"]],
                              "default": _plain(unobs_value(a["default"])), "null": _plain(unobs_value(a["null"]))})
        ab = e["abstract"]
        by[e["name"]] = {"name": e["name"], "abstract": ab.get("bool", False) if isinstance(ab, dict) else False,
                         "ftype": e["ftype"], "fcard": None if e["fcard"] == [1, 1] else list(e["fcard"]),
                         "attrs": attrs, "rels": []}
    for e in obs["features"]:
        for r in e["rels"]:
            by[e["name"]]["rels"].append({"min": r["min"], "max": r["max"],
                                          "children": [by[c] for c in r["children"]]})
    return {"root": by[obs["root"]], "ctcs": [{"name": c["name"], "ast": unobs_node(c["ast"])} for c in obs["ctcs"]]}


def _plain(v):
    """AFM-style attribute fields are kept as plain Python values (floats thawed)."""
    return _thaw(v)
