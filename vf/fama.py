"""Independent reading of the FaMa XML format (used as reference for C09/C16 corpus checks).

<feature-model><feature name=..> (binaryRelation|setRelation)* </feature> (requires|excludes)* </feature-model>
binaryRelation: <cardinality min max/> + solitaryFeature(s); setRelation: <cardinality/> + groupedFeature(s).
Written from the format, sharing no code with /repo; uses the stdlib pull parser (iterparse) rather than a
recursive element walk.
"""
import os
from xml.etree import ElementTree as ET

from vf.build import feat

CORPUS = os.path.join("/repo", "resources", "models")
FEATURE_TAGS = {"feature", "solitaryfeature", "groupedfeature"}
REL_TAGS = {"binaryrelation", "setrelation"}


def parse(path):
    stack = []            # open elements: ("F", featspec) | ("R", relspec) | ("X", None)
    root = None
    ctcs = []
    for ev, el in ET.iterparse(path, events=("start", "end")):
        tag = el.tag.lower()
        if ev == "start":
            if tag in FEATURE_TAGS:
                f = feat(el.attrib.get("name"))
                if stack and stack[-1][0] == "R":
                    stack[-1][1]["children"].append(f)
                elif root is None:
                    root = f
                stack.append(("F", f))
            elif tag in REL_TAGS:
                r = {"min": None, "max": None, "children": [], "kind": tag}
                stack[-1][1]["rels"].append(r)
                stack.append(("R", r))
            elif tag == "cardinality":
                stack[-1][1]["min"] = int(el.attrib["min"])
                stack[-1][1]["max"] = int(el.attrib["max"])
                stack.append(("X", None))
            elif tag in ("requires", "excludes"):
                ctcs.append({"name": el.attrib.get("name"),
                             "ast": [tag.upper(), ["T", el.attrib["feature"]], ["T", el.attrib[tag]]]})
                stack.append(("X", None))
            else:
                stack.append(("X", None))
        else:
            stack.pop()
            el.clear()
    return {"root": root, "ctcs": ctcs}


def corpus_files(max_features=None):
    """Relative paths of all shipped FaMa XML files (sorted); Betty files filtered by the size directory."""
    out = []
    for base, _dirs, files in os.walk(CORPUS):
        for fn in files:
            if not fn.endswith(".xml"):
                continue
            p = os.path.join(base, fn)
            rel_ = os.path.relpath(p, CORPUS)
            if max_features is not None and "simple_betty_gen_models" in rel_:
                size = int(rel_.split(os.sep)[2])
                if size > max_features:
                    continue
            out.append(rel_)
    return sorted(out)


def statistics(path_xml):
    """The numbers of the Betty .statistics file next to path_xml, or None."""
    p = path_xml[:-4] + ".statistics"
    if not os.path.exists(p):
        return None
    keys = {"Number of features": "features", "Mandatory features": "mandatory", "Optinal features": "optional",
            "Or-relationships": "or_rels", "Alternative relationships": "alt_rels",
            "Subfeatures in or-relationships": "or_sub", "Subfeatures in alternative relationships": "alt_sub",
            "Maximum branching factor": "max_branching",
            "Maximum number of children in a set relationship": "max_set_children",
            "Cross-tree constraints": "ctcs", "Requires constraints": "requires", "Excludes constraints": "excludes"}
    out = {}
    with open(p, encoding="utf-8", errors="replace") as fh:
        for line in fh:
            if ":" not in line:
                continue
            k, v = line.split(":", 1)
            if k.strip() in keys:
                out[keys[k.strip()]] = int(v.strip().split()[0])
    return out
