"""Hypothesis strategies producing ModelSpecs (plain JSON data), constructive - no filtering on shape.

model_specs(profile) draws n, n distinct names, a random recursive tree (parent index p_i < i),
partitions each child list into relation blocks according to the profile's layout, and gives every
block a kind allowed by the profile with cardinalities constructed inside the kind's bounds.
"""
import string

from hypothesis import strategies as st

from vf import dictionary, logic

# ------------------------------------------------------------------ names
IDENT_FIRST = string.ascii_letters
IDENT_REST = string.ascii_letters + string.digits + "_"


LONG_IDENTS = ["L" + "o" * 130 + "ng", "A" + "b1" * 80, "X" * 260]


def ident_names(max_size=8):
    short = st.builds(lambda a, b: a + b, st.sampled_from(IDENT_FIRST),
                      st.text(alphabet=IDENT_REST, max_size=max_size - 1))
    if max_size < 8:
        return short
    # now and then a name far beyond any line width or fixed-size buffer
    return st.one_of(*([short] * 24), st.sampled_from(LONG_IDENTS))


def dict_names(pred):
    """Names taken from the string constants of the code under test (see vf/dictionary.py)."""
    ws = dictionary.words_matching(pred)
    return st.sampled_from(ws) if ws else ident_names()


def _is_ident(w):
    return w[0] in IDENT_FIRST + "_" and all(ch in IDENT_REST for ch in w)


def _text_ok(w):
    return not w.startswith("'") and '"' not in w and "." not in w and all(ord(ch) >= 32 for ch in w)


UVL_KEYWORDS = ["features", "constraints", "mandatory", "optional", "or", "alternative",
                "cardinality", "namespace", "imports", "include", "as", "true", "false",
                "Boolean", "Integer", "Real", "String", "sum", "avg", "len", "floor", "ceil",
                "constraint", "Type", "Arithmetic", "abstract"]
OPERATOR_WORDS = ["AND", "OR", "NOT", "XOR", "IMPLIES", "REQUIRES", "EXCLUDES", "EQUIVALENCE",
                  "EQUALS", "LOWER", "GREATER", "ADD", "SUB", "MUL", "DIV", "SUM", "AVG", "LEN",
                  "x AND y", "a OR b", "NOT z", "p XOR q", "n IMPLIES m"]
ESCAPE_LIKE = ["%2E", "%25", "a%2Eb", "100%", "%%", "\\n", "\\t", "\\u0041", "\\x41", "&amp;", "&#46;", "&lt;b&gt;", "$$", "${x}", "a\\\\b",
               "\\", "\\'", "a''", "`x`", "-x", "-A", "+B", "!B", "~C"]
ODD_UVL = [e for e in ESCAPE_LIKE if "'" not in e or not e.startswith("'")] + ["a--b", "-1", "+1", "007", "1e3", "0x10", "1_000", "-", "+", "½", "%s", "{0}", "$1", "a // b", "see // the manual", "/* x */", "x /* y", "*/", "http://h/a//b", "1a", "42", "_x", "_", "a#b", "a§b", "a'b", "a;b", "a b", "  ", "a-b", "a+b",
           "a&b", "a|b", "(x)", "[y]", "{z}", "a,b", "a:b", "a=b", "<a>", "a/b", "a\\b", "a*b",
           "äöü", "ñandú", "日本語", "Δx", "\U0001f600", "xé",
           "!a", "a!", "a?", "100%", "a$", "a@b", "~t", "^u", "`v`"]

_PRINTABLE_PUNCT = "".join(ch for ch in string.punctuation if ch not in '".')


def _no_lead_apostrophe(s):
    return s if not s.startswith("'") else "q" + s


def unicode_identifier_like():
    """ASCII letter followed by a mix of ASCII identifier characters and non-ASCII letters, digits, marks
    and connectors - names on which Unicode-aware predicates (isalnum, isidentifier, \\w, \\d) and
    ASCII-only ones disagree."""
    exotic = st.characters(min_codepoint=0x80, whitelist_categories=("Lu", "Ll", "Lo", "Lm", "Nd", "Nl", "No", "Mn", "Pc"))
    pool = ["level\u0663", "x\u0967", "a\uff11", "caf\u00e9", "m\u00b2", "na\u00efve", "a\u203fb", "\u00e9t\u00e9",
            "A\u0300", "x\u2082", "\u03a9mega", "i\u0307", "\u00df", "\u0131"]
    built = st.builds(lambda a, parts: a + "".join(parts), st.sampled_from(IDENT_FIRST),
                      st.lists(st.one_of(st.sampled_from(IDENT_REST), exotic), min_size=1, max_size=5))
    return st.one_of(built, st.sampled_from(pool))


def uvl_names():
    """Anything a quoted UVL identifier can carry: no '"', no '.', no CR/LF/control, not starting
    with an apostrophe (library-wide string-literal marker)."""
    free = st.text(
        alphabet=st.one_of(
            st.sampled_from(string.ascii_letters + string.digits + " _" + _PRINTABLE_PUNCT),
            st.characters(min_codepoint=0xA1, max_codepoint=0x2FFF,
                          blacklist_categories=("Cc", "Cs", "Cn", "Zl", "Zp", "Cf", "Co")),
            st.sampled_from("日本語\U0001f600\U00010348")),
        min_size=1, max_size=8).map(_no_lead_apostrophe)
    return st.one_of(ident_names(), st.sampled_from(UVL_KEYWORDS), st.sampled_from(OPERATOR_WORDS),
                     st.sampled_from(ODD_UVL), free, unicode_identifier_like(), dict_names(_text_ok), line_like_names('".'))


LINE_LIKE = "\t\x0b\x0c\x1c\x1d\x1e\x85\u2028\u2029\x00\x1b\x7f\u00a0\u200b\ufeff"


def line_like_names(forbidden):
    """Names carrying characters that text utilities treat as line breaks or blanks (str.splitlines, str.split,
    textwrap, regex \\s) although the format's quoted-name token carries them like any other character; plus, rarely,
    completely arbitrary text minus `forbidden`, CR/LF and surrogates."""
    ch = st.sampled_from([c for c in LINE_LIKE if c not in forbidden])
    built = st.builds(lambda a, c, b: a + c + b, st.sampled_from(["", "a", "x y"]), ch, st.sampled_from(["", "b", "1"]))
    free = st.text(alphabet=st.characters(blacklist_categories=("Cs",), blacklist_characters=forbidden + "\r\n"),
                   min_size=1, max_size=5)
    return st.one_of(built, built, free).map(_no_lead_apostrophe)


def unicode_names(extra_pool=()):
    """Arbitrary Unicode text minus surrogates/control chars, not starting with an apostrophe."""
    pool = ESCAPE_LIKE + ["a--b", "-1", "+1", "007", "1e3", "0x10", "-", "+", "%s", "{0}", "$1", "\\1", "a b", 'say "hi"', "back\\slash", "tab", "\U0001f600", "日本", "x.y", "a&b<c>",
            "'", "a'", "été", "AND", "x OR y", " lead", "trail ", "a/b", "{}", "[]", "()", "\"", "\"q\"",
            "a b", " x"[1:], "1", "_", "-"] + list(extra_pool)
    free = st.text(alphabet=st.characters(blacklist_categories=("Cs", "Cc")), min_size=1,
                   max_size=8).map(_no_lead_apostrophe)
    return st.one_of(ident_names(), st.sampled_from(pool).map(_no_lead_apostrophe), free, unicode_identifier_like(),
                     dict_names(lambda w: not w.startswith("'")))


def any_unicode_names():
    """JSON-based formats: no restriction on characters - control characters, line breaks, NUL ...  Excluded: lone
    surrogates (not Unicode scalar values, cannot be encoded) and a *leading* apostrophe (library-wide marker of a
    string literal in constraint terms - DESIGN 3.3)."""
    pool = ["\n", "a\nb", "\t", "\x00", "a\x00b", "\r\n", "q'", "a'b'", "\x1b[0m", "\x7f", "\u2028", "\ufeffbom", "\\n"]
    free = st.text(alphabet=st.characters(blacklist_categories=("Cs",)), min_size=1, max_size=6).map(_no_lead_apostrophe)
    return st.one_of(unicode_names(), unicode_names(), st.sampled_from(pool), free)


def unicode_names_nodot(extra_pool=()):
    return unicode_names(extra_pool).map(lambda s: s.replace(".", "·"))


def xml_names():
    """Unicode text legal in XML 1.0 attribute values and text (no control chars; U+FFFE/FFFF out)."""
    pool = ESCAPE_LIKE + ["a&b", "a<b", "a>b", 'a"b', "a'b", "a b", "é", "日本", "&amp;", "<x/>", "]]>", "x  y",
            "a--b", "--", "-->", "<!--", "<!-- c -->", "gtk--3", "<![CDATA[x]]>", "<?pi?>", "&#65;", "&lt;", "%s", "{0}", "$1", "\\1"]
    free = st.text(alphabet=st.characters(blacklist_categories=("Cs", "Cc", "Cn"),
                                          blacklist_characters="\ufffe\uffff\u2028\u2029\x85"),
                   min_size=1, max_size=8).map(_no_lead_apostrophe)
    # XML 1.0 Char = #x9 | #xA | #xD | [#x20-#xD7FF] | [#xE000-#xFFFD] | [#x10000-#x10FFFF]: tab, LF, CR, DEL, C1 controls
    # and the Unicode line separators are representable (as character references where a parser would normalise them)
    ws = st.builds(lambda a, c, b: a + c + b, st.sampled_from(["", "a", "x y"]),
                   st.sampled_from("\t\n\r\x85\u2028\u2029\x7f\x80\u00a0\u200b\ufeff"), st.sampled_from(["", "b", "1"]))
    return st.one_of(ident_names(), st.sampled_from(pool), free, unicode_identifier_like(), dict_names(_text_ok), ws).map(
        lambda s: s.replace(".", "·"))


AFM_KEYWORDS = {"AND", "OR", "NOT", "IFF", "IMPLIES", "REQUIRES", "EXCLUDES", "Integer"}
AFM_LOWER_KEYWORDS = {"to", "abs", "max", "min", "cos", "sin", "sum"}


def afm_names():
    base = st.builds(lambda a, b: a + b, st.sampled_from(string.ascii_uppercase),
                     st.text(alphabet=string.ascii_letters + string.digits, max_size=6))
    pool = ["ANDx", "Not", "Integer1", "ORa", "NOTb", "IFFy", "Requires", "EXCLUDESz", "A1", "Zz9", "IMPLIESq",
            "And", "Or", "X"]
    import re as _re
    word = _re.compile(r"^[A-Z][A-Za-z0-9]*$")
    return st.one_of(base, st.sampled_from(pool), dict_names(lambda w: bool(word.match(w)))).map(
        lambda s: s + "x" if s in AFM_KEYWORDS else s)


def afm_attr_names():
    base = st.builds(lambda a, b: a + b, st.sampled_from(string.ascii_lowercase),
                     st.text(alphabet=string.ascii_lowercase + string.digits, max_size=5))
    return base.map(lambda s: s + "q" if s in AFM_LOWER_KEYWORDS else s)


def distinct(names_strategy, n, key=None):
    return st.lists(names_strategy, min_size=n, max_size=n, unique_by=key or (lambda s: s))


# ------------------------------------------------------------------ relations
# kind -> builder(draw, k) -> (min, max); k = block size
def _k_mand(draw, k):
    return 1, 1


def _k_opt(draw, k):
    return 0, 1


def _k_alt(draw, k):
    return 1, 1


def _k_or(draw, k):
    return 1, k


def _k_mutex(draw, k):
    return 0, 1


def _k_card(draw, k):
    a = draw(st.integers(0, k))
    b = draw(st.integers(a, k))
    return a, b


def _k_star(draw, k):
    return draw(st.integers(0, k)), -1


SINGLE_KINDS = {"mandatory": _k_mand, "optional": _k_opt, "card1": _k_card, "star1": _k_star}
GROUP_KINDS = {"alternative": _k_alt, "or": _k_or, "mutex": _k_mutex, "card": _k_card, "star": _k_star}


# ---- near-duplicate names: variants of another name of the same model (case, blanks, underscore)
def _v_swapcase(n):
    return n.swapcase()


def _v_upper(n):
    return n.upper()


def _v_lower(n):
    return n.lower()


def _v_keep_first_swap_rest(n):
    return n[:1] + n[1:].swapcase()


def _v_inner_space(n):
    return n[:len(n) // 2] + " " + n[len(n) // 2:] if len(n) >= 2 else n + " "


def _v_no_space(n):
    return n.replace(" ", "")


def _v_trailing_space(n):
    return n + " "


def _v_underscore(n):
    return n + "_"


def _v_double_space(n):
    return n.replace(" ", "  ") if " " in n else n + "  x"


def _v_zero_pad(n):
    """cpu1 -> cpu01: equal under 'natural' (numeric-run) ordering, different as strings"""
    import re as _re
    return _re.sub(r"(\d+)", lambda m: "0" + m.group(1), n, count=1) if _re.search(r"\d", n) else n + "01"


def _v_digit_suffix(n):
    return n + "1"


VARIANTS_IDENT = (_v_swapcase, _v_upper, _v_lower, _v_underscore, _v_zero_pad, _v_digit_suffix)
VARIANTS_TEXT = VARIANTS_IDENT + (_v_inner_space, _v_no_space, _v_trailing_space, _v_double_space)
VARIANTS_AFM = (_v_keep_first_swap_rest, _v_zero_pad, _v_digit_suffix)


class Profile:
    def __init__(self, names, single=("mandatory", "optional"), group=("alternative", "or"),
                 layout="free", ftypes=("BOOLEAN",), fcards=False, abstract=True, attrs=None,
                 ctc_ops=logic.LOGICAL, ctc_depth=3, ctc_max=4, ctc_names=None, ctc_leaf=None,
                 group_plus_mandatory=False, unique_key=None, ctc_expr=None, variants=VARIANTS_IDENT, sanitize=None,
                 wide=False, simple_ops="auto"):
        self.names = names
        self.single = single
        self.group = group
        self.layout = layout          # free | one_group (all singles or exactly one group)
        self.ftypes = ftypes
        self.fcards = fcards
        self.abstract = abstract
        self.attrs = attrs            # callable(draw, feature_name) -> list of attr specs
        self.ctc_ops = ctc_ops
        self.ctc_depth = ctc_depth
        self.ctc_max = ctc_max
        self.ctc_names = ctc_names    # callable(draw, i) -> constraint name
        self.ctc_leaf = ctc_leaf
        self.group_plus_mandatory = group_plus_mandatory
        self.unique_key = unique_key
        self.ctc_expr = ctc_expr      # callable(draw, names, model_feats) -> expr, overrides default
        self.variants = variants      # functions name -> near-duplicate name inside the profile's name domain
        self.sanitize = sanitize      # maps a variant back into the name domain (e.g. away from keywords)
        self.wide = wide              # now and then one wide group (10-24 leaves, multi-digit bounds)
        # operators usable for 'structured' constraint lists (simple forms between related features); "auto" =
        # ctc_ops when the profile has no ctc_expr of its own, else none
        self.simple_ops = (ctc_ops if ctc_expr is None else ()) if simple_ops == "auto" else tuple(simple_ops)


def exprs(names, ops=logic.LOGICAL, max_depth=3, leaf=None):
    """Recursive strategy of logical expression trees over feature references."""
    leaves = leaf if leaf is not None else st.sampled_from(list(names)).map(lambda n: ["T", n])
    unary = [o for o in ops if o == "NOT"]
    binary = [o for o in ops if o != "NOT"]

    def extend(children):
        opts = []
        if unary:
            opts.append(st.builds(lambda e: ["NOT", e], children))
        if binary:
            opts.append(st.builds(lambda o, a, b: [o, a, b], st.sampled_from(binary), children, children))
        return st.one_of(opts)

    if max_depth <= 0:
        return leaves
    return st.recursive(leaves, extend, max_leaves=2 ** min(max_depth, 4))


@st.composite
def expr_of_depth(draw, names, ops, depth):
    """Expression whose depth is at most `depth`, built top-down so deep trees are common."""
    if depth <= 0 or draw(st.integers(0, 9)) < 2:
        return ["T", draw(st.sampled_from(list(names)))]
    if depth >= 2 and "AND" in ops and "IMPLIES" in ops and draw(st.integers(0, 11)) == 0:
        return _near_symmetric(draw, names, ops, depth)
    if depth >= 1 and draw(st.integers(0, 9)) == 0:
        return _simple_like(draw, names, ops, depth)
    if depth >= 2 and draw(st.integers(0, 13)) == 0:
        # the same sub-tree twice (the shape distribution produces: (x | z) & (y | z))
        binary = [o for o in ops if o != "NOT"]
        if binary:
            z = draw(expr_of_depth(names, ops, depth - 2))
            if "NOT" in ops and z[0] == "T" and draw(st.booleans()):
                z = ["NOT", z]
            o1, o2 = draw(st.sampled_from(binary)), draw(st.sampled_from(binary))
            return [o1, [o2, draw(expr_of_depth(names, ops, depth - 2)), z], [o2, draw(expr_of_depth(names, ops, depth - 2)), z]]
    if depth >= 2 and "AND" in ops and "OR" in ops and draw(st.integers(0, 11)) == 0:
        return _clause_like(draw, names, ops, min(depth, 4))
    pool = list(ops) + (["NOT", "NOT"] if "NOT" in ops else [])
    op = draw(st.sampled_from(pool))
    if op == "NOT":
        return ["NOT", draw(expr_of_depth(names, ops, depth - 1))]
    return [op, draw(expr_of_depth(names, ops, depth - 1)), draw(expr_of_depth(names, ops, depth - 1))]


def _perturb(draw, e, names):
    """e with one leaf replaced by another name (or unchanged) - same shape, same operators."""
    leaves = [0]

    def count(x):
        if x[0] == "T":
            leaves[0] += 1
        else:
            for sub in x[1:]:
                count(sub)
    count(e)
    if leaves[0] == 0 or draw(st.integers(0, 2)) == 0:
        return e
    target = draw(st.integers(0, leaves[0] - 1))
    new_name = draw(st.sampled_from(list(names)))
    seen = [0]

    def rec(x):
        if x[0] == "T":
            i = seen[0]
            seen[0] += 1
            return ["T", new_name] if i == target else x
        return [x[0]] + [rec(sub) for sub in x[1:]]
    return rec(e)


def _literal(draw, names, ops):
    t = ["T", draw(st.sampled_from(list(names)))]
    if "NOT" in ops and draw(st.integers(0, 9)) == 0:
        return ["NOT", ["NOT", t]] if draw(st.booleans()) else ["NOT", ["NOT", ["NOT", t]]]
    return ["NOT", t] if "NOT" in ops and draw(st.booleans()) else t


def _simple_like(draw, names, ops, depth):
    """One binary operator over two (possibly negated) literals, sometimes under a NOT: the neighbourhood of the
    forms the library pattern-matches as requires/excludes (A => B, !A | B, !A | !B, A => !B, ...), where writers
    take short cuts."""
    binary = [o for o in ops if o != "NOT"]
    if not binary:
        return _literal(draw, names, ops)
    e = [draw(st.sampled_from(binary)), _literal(draw, names, ops), _literal(draw, names, ops)]
    if depth >= 3 and draw(st.integers(0, 3)) == 0:
        # one operand is itself a small binary formula: (x op2 y) op z, possibly below a NOT
        inner = [draw(st.sampled_from(binary)), _literal(draw, names, ops), _literal(draw, names, ops)]
        e = [e[0], inner, e[2]] if draw(st.booleans()) else [e[0], e[1], inner]
    if depth >= 2 and "NOT" in ops and draw(st.integers(0, 3)) == 0:
        return ["NOT", e]
    return e


def _clause_like(draw, names, ops, depth):
    """AND/OR-only trees over literals (OR above OR above AND and the like): the shapes on which CNF conversion
    has work to do."""
    if depth <= 0 or draw(st.integers(0, 5)) == 0:
        return _literal(draw, names, ops)
    op = draw(st.sampled_from(["AND", "OR", "OR"]))
    return [op, _clause_like(draw, names, ops, depth - 1), _clause_like(draw, names, ops, depth - 1)]


def _near_symmetric(draw, names, ops, depth):
    """Trees that look like the expansion of an equivalence / xor (what readers and writers pattern-match on),
    exactly or with one leaf off: (x => y) & (y' => x'),  (x & !y) | (!x' & y')."""
    x = draw(expr_of_depth(names, [o for o in ops if o in ("NOT", "AND", "OR")] or ["NOT"], min(depth - 2, 1)))
    y = draw(expr_of_depth(names, [o for o in ops if o in ("NOT", "AND", "OR")] or ["NOT"], min(depth - 2, 1)))
    x2, y2 = _perturb(draw, x, names), _perturb(draw, y, names)
    imp = draw(st.sampled_from([o for o in ("IMPLIES", "REQUIRES") if o in ops]))
    if "OR" in ops and draw(st.booleans()):
        # the xor expansion, exactly or with the second conjunct arranged otherwise (same operands, other polarity
        # or order): (x & !y) | (!x & y), (x & !y) | (!y & x), (x & !y) | (y & !x) ...
        second = draw(st.sampled_from([lambda a, b: ["AND", ["NOT", a], b], lambda a, b: ["AND", b, ["NOT", a]],
                                       lambda a, b: ["AND", ["NOT", b], a], lambda a, b: ["AND", a, ["NOT", b]],
                                       lambda a, b: ["AND", ["NOT", a], ["NOT", b]], lambda a, b: ["AND", a, b]]))
        return ["OR", ["AND", x, ["NOT", y]], second(x2, y2)]
    return ["AND", [imp, x, y], [imp, y2, x2]]


def _blocks(draw, k, allow_groups=True):
    """Partition range(k) (in order) into consecutive blocks; returns list of block sizes."""
    if k == 0:
        return []
    if not allow_groups:
        return [1] * k
    sizes = []
    cur = 1
    for _ in range(k - 1):
        if draw(st.booleans()):
            cur += 1
        else:
            sizes.append(cur)
            cur = 1
    sizes.append(cur)
    return sizes


@st.composite
def model_specs(draw, profile: Profile, min_feats=1, max_feats=12, with_ctcs=True, allow_wide=True, ctc_mode=None,
                many_ctcs=False):
    n = draw(st.integers(min_feats, max_feats))
    names = draw(distinct(profile.names, n, profile.unique_key))
    if n >= 2 and profile.variants and draw(st.integers(0, 2)) == 0:
        # near-duplicate names: replace up to two names by a variant of another one
        for _ in range(draw(st.integers(1, 2))):
            i = draw(st.integers(0, n - 1))
            j = draw(st.integers(0, n - 1))
            cand = draw(st.sampled_from(profile.variants))(names[i])
            if profile.sanitize is not None:
                cand = profile.sanitize(cand)
            if i != j and cand and cand not in names:
                names[j] = cand
    parents = [None] + [draw(st.integers(0, i - 1)) for i in range(1, n)]
    kids = {i: [] for i in range(n)}
    for i in range(1, n):
        kids[parents[i]].append(i)
    order = draw(st.permutations(list(range(1, n)))) if n > 2 and draw(st.booleans()) else None
    feats = {}

    def mk(i):
        f = {"name": names[i], "abstract": draw(st.booleans()) if profile.abstract else False,
             "ftype": draw(st.sampled_from(profile.ftypes)), "fcard": None, "attrs": [], "rels": []}
        if profile.fcards and draw(st.integers(0, 4)) == 0:
            lo = draw(st.one_of(st.integers(0, 3), st.integers(0, 120)))
            f["fcard"] = [lo, draw(st.one_of(st.just(-1), st.integers(lo, lo + 3), st.integers(lo, lo + 1200)))]
        if profile.attrs is not None:
            f["attrs"] = profile.attrs(draw, names[i])
        return f

    for i in range(n):
        feats[i] = mk(i)
    for i in range(n):
        ch = kids[i]
        if order is not None:
            ch = sorted(ch, key=order.index)
        if not ch:
            continue
        rels = []
        if profile.layout == "free":
            sizes = _blocks(draw, len(ch), allow_groups=bool(profile.group))
            pos = 0
            for sz in sizes:
                block = ch[pos:pos + sz]
                pos += sz
                kind = draw(st.sampled_from(profile.single if sz == 1 else profile.group))
                lo, hi = (SINGLE_KINDS if sz == 1 else GROUP_KINDS)[kind](draw, sz)
                rels.append({"min": lo, "max": hi, "children": [feats[c] for c in block]})
        else:  # one_group: all singles, or exactly one group (optionally + mandatory singles)
            as_group = len(ch) >= 2 and profile.group and draw(st.booleans())
            if as_group:
                extra = 0
                if profile.group_plus_mandatory and len(ch) >= 3:
                    extra = draw(st.integers(0, len(ch) - 2))
                grp, singles = ch[:len(ch) - extra], ch[len(ch) - extra:]
                kind = draw(st.sampled_from(profile.group))
                lo, hi = GROUP_KINDS[kind](draw, len(grp))
                rels.append({"min": lo, "max": hi, "children": [feats[c] for c in grp]})
                for c in singles:
                    rels.append({"min": 1, "max": 1, "children": [feats[c]]})
                if extra and draw(st.booleans()):
                    rels.reverse()
            else:
                for c in ch:
                    kind = draw(st.sampled_from(profile.single))
                    lo, hi = SINGLE_KINDS[kind](draw, 1)
                    rels.append({"min": lo, "max": hi, "children": [feats[c]]})
        feats[i]["rels"] = rels
    if allow_wide and profile.wide and profile.group and draw(st.integers(0, 11)) == 0:
        _add_wide_group(draw, profile, feats, names)
    if profile.layout == "free" and profile.group and draw(st.integers(0, 7)) == 0:
        _add_sibling_groups(draw, profile, feats, names)
    ctcs = []
    if with_ctcs and profile.ctc_max and profile.simple_ops and n >= 2 and (
            ctc_mode == "structured" or many_ctcs or draw(st.integers(0, 4)) == 0):
        for j, e in enumerate(_structured_ctcs(draw, feats[0], profile.simple_ops,
                                               draw(st.integers(40, 120)) if many_ctcs else profile.ctc_max)):
            ctcs.append({"name": profile.ctc_names(draw, j) if profile.ctc_names else f"C{j}", "ast": e})
    elif with_ctcs and profile.ctc_max:
        m = draw(st.integers(0, profile.ctc_max))
        for j in range(m):
            if profile.ctc_expr is not None:
                e = profile.ctc_expr(draw, names, feats)
            else:
                e = draw(expr_of_depth(names, profile.ctc_ops, draw(st.integers(0, profile.ctc_depth))))
            cname = profile.ctc_names(draw, j) if profile.ctc_names else f"C{j}"
            ctcs.append({"name": cname, "ast": e})
    if ctcs and draw(st.integers(0, 7)) == 0:
        # a second constraint with the same operators and the same operands in the same order, but another shape
        src = draw(st.sampled_from(ctcs))
        tw = _reshaped(src["ast"])
        if tw is not None:
            ctcs.append({"name": profile.ctc_names(draw, len(ctcs)) if profile.ctc_names else f"C{len(ctcs)}", "ast": tw})
    for c in ctcs:
        c["ast"] = cap_clause_cost(c["ast"])
    model = {"root": feats[0], "ctcs": ctcs}
    style = draw(st.integers(0, 5))
    if style in (1, 2):
        model["build_style"] = style     # another order of the same public construction calls (build.build_feature)
    if ctcs and draw(st.integers(0, 3)) == 0:
        model["share_nodes"] = True       # equal sub-trees of a constraint are one Node object (see build_node_shared)
    return model


def _reshaped(e):
    """Same pre-order operator list and same leaf sequence, different tree: (a op1 b) op2 c <-> a op1 (b op2 c), or the
    NOT of a two-literal formula moved to the other operand (!a op b <-> a op !b)."""
    if e[0] in logic.LEAF or len(e) != 3 or not logic.is_logical(e):
        return None           # (re-associating a comparison or an arithmetic tree would not be well-typed)
    op, l, r = e
    if l[0] not in logic.LEAF and len(l) == 3:
        return [l[0], l[1], [op, l[2], r]]
    if r[0] not in logic.LEAF and len(r) == 3:
        return [r[0], [op, l, r[1]], r[2]]
    if l[0] == "NOT" and r[0] in logic.LEAF:
        return [op, l[1], ["NOT", r]]
    if r[0] == "NOT" and l[0] in logic.LEAF:
        return [op, ["NOT", l], r[1]]
    return None


def _add_sibling_groups(draw, profile, feats, names):
    """Two or three groups next to each other under one feature - of one kind (and often one cardinality) or of
    different kinds: code that handles 'the group' of a feature, or merges neighbours that look alike, meets them here."""
    host = feats[draw(st.sampled_from(sorted(feats)))]
    taken = set(names)
    same = draw(st.booleans())
    kind = draw(st.sampled_from(profile.group))
    bounds = None
    new_rels = []
    for g in range(draw(st.integers(2, 3))):
        k = draw(st.integers(2, 3))
        kids = []
        for i in range(k):
            nm = f"Sg{g}x{i}"
            while nm in taken:
                nm += "x"
            taken.add(nm)
            names.append(nm)
            kids.append({"name": nm, "abstract": False, "ftype": profile.ftypes[0], "fcard": None, "attrs": [], "rels": []})
        kd = kind if same else draw(st.sampled_from(profile.group))
        lo, hi = GROUP_KINDS[kd](draw, k)
        if same and bounds is not None and bounds[0] <= k and bounds[1] <= k and draw(st.booleans()):
            lo, hi = bounds
        bounds = (lo, hi)
        new_rels.append({"min": lo, "max": hi, "children": kids})
    pos = draw(st.integers(0, len(host["rels"])))
    host["rels"][pos:pos] = new_rels


def _add_wide_group(draw, profile, feats, names):
    """One group of 10-24 leaves under some feature, with bounds where numeric and textual order disagree
    ([2..10], [9..11], ...) about half of the time: multi-digit cardinalities only exist in wide groups."""
    hosts = [i for i in feats if profile.layout == "free" or not feats[i]["rels"]]
    host = feats[draw(st.sampled_from(hosts))]
    k = draw(st.integers(10, 24))
    taken = set(names)
    kids = []
    for i in range(k):
        nm = f"Wide{i}"
        while nm in taken:
            nm += "x"
        taken.add(nm)
        names.append(nm)
        kids.append({"name": nm, "abstract": False, "ftype": profile.ftypes[0], "fcard": None, "attrs": [], "rels": []})
    if "card" in profile.group:
        if draw(st.booleans()):
            lo = draw(st.integers(2, 9))
            hi = draw(st.integers(10, k))
        else:
            lo = draw(st.integers(0, k))
            hi = draw(st.integers(lo, k))
    else:
        lo, hi = GROUP_KINDS[draw(st.sampled_from(profile.group))](draw, k)
    host["rels"].append({"min": lo, "max": hi, "children": kids})


def _structured_ctcs(draw, root, ops, ctc_max):
    """A list of simple-form constraints between features that are *related in the tree* (members of one relation,
    siblings in different relations, parent/child, ancestor/descendant) or arbitrary - all of one form or mixed.
    This is what the constraint section of a hand-written model looks like, and where code that special-cases
    requires/excludes or consults the tree while translating constraints takes its short cuts."""
    ops = set(ops)
    members, parent_of = [], {}
    stack = [root]
    all_names = []
    while stack:
        f = stack.pop()
        all_names.append(f["name"])
        for ri, r in enumerate(f["rels"]):
            for c in r["children"]:
                members.append((f["name"], ri, c["name"]))
                parent_of[c["name"]] = f["name"]
                stack.append(c)

    def T(x):
        return ["T", x]
    forms = []
    if "IMPLIES" in ops:
        forms.append(lambda a, b: ["IMPLIES", T(a), T(b)])
        if "NOT" in ops:
            forms.append(lambda a, b: ["IMPLIES", T(a), ["NOT", T(b)]])
    if "REQUIRES" in ops:
        forms.append(lambda a, b: ["REQUIRES", T(a), T(b)])
    if "EXCLUDES" in ops:
        forms.append(lambda a, b: ["EXCLUDES", T(a), T(b)])
        forms.append(lambda a, b: ["EXCLUDES", T(a), T(b)])
    if "OR" in ops and "NOT" in ops:
        forms += [lambda a, b: ["OR", ["NOT", T(a)], T(b)], lambda a, b: ["OR", T(b), ["NOT", T(a)]],
                  lambda a, b: ["OR", ["NOT", T(a)], ["NOT", T(b)]]]
    if "EQUIVALENCE" in ops:
        forms.append(lambda a, b: ["EQUIVALENCE", T(a), T(b)])
    if "XOR" in ops:
        forms.append(lambda a, b: ["XOR", T(a), T(b)])
    if "AND" in ops and "NOT" in ops:
        forms.append(lambda a, b: ["NOT", ["AND", T(a), T(b)]])
    if not forms:
        return []
    # a list of requires-like, of excludes-like or of equivalence constraints is the most common constraint section
    main = [f for f, ok in ((lambda a, b: ["IMPLIES", T(a), T(b)], "IMPLIES" in ops),
                            (lambda a, b: ["REQUIRES", T(a), T(b)], "REQUIRES" in ops),
                            (lambda a, b: ["EXCLUDES", T(a), T(b)], "EXCLUDES" in ops),
                            (lambda a, b: ["EQUIVALENCE", T(a), T(b)], "EQUIVALENCE" in ops),
                            (lambda a, b: ["EQUIVALENCE", T(a), T(b)], "EQUIVALENCE" in ops)) if ok]
    homogeneous = None
    if draw(st.booleans()):
        homogeneous = draw(st.sampled_from(main)) if main and draw(st.booleans()) else draw(st.sampled_from(forms))

    def pair():
        how = draw(st.sampled_from(["same-relation", "other-relation", "parent-child", "ancestor", "any", "any"]))
        if how in ("same-relation", "other-relation") and members:
            p, ri, a = draw(st.sampled_from(members))
            same = [c for q, rj, c in members if q == p and (rj == ri) == (how == "same-relation") and c != a]
            if same:
                return a, draw(st.sampled_from(same))
        if how in ("parent-child", "ancestor") and members:
            _, _, c = draw(st.sampled_from(members))
            up = parent_of[c]
            while how == "ancestor" and up in parent_of and draw(st.booleans()):
                up = parent_of[up]
            return (c, up) if draw(st.booleans()) else (up, c)
        return draw(st.sampled_from(all_names)), draw(st.sampled_from(all_names))

    out = []
    for _ in range(draw(st.integers(1, max(1, ctc_max + 2))) if ctc_max < 40 else ctc_max):
        a, b = pair()
        e = (homogeneous or draw(st.sampled_from(forms)))(a, b)
        if "NOT" in ops and draw(st.integers(0, 7)) == 0:
            # a doubled negation on one literal (what a rewriting tool leaves behind): same meaning, other shape
            i = draw(st.integers(1, len(e) - 1))
            e = e[:i] + [["NOT", ["NOT", e[i]]]] + e[i + 1:]
        out.append(e)
    return out


# ------------------------------------------------------------------ profiles
def ident_or_dict_names():
    return st.one_of(ident_names(), ident_names(), ident_names(), dict_names(_is_ident))


BOOLEAN_ANY = Profile(ident_or_dict_names(), single=("mandatory", "optional"),
                      group=("alternative", "or", "mutex", "card"), layout="free", ctc_depth=3, ctc_max=3)

BOOLEAN_STAR = Profile(ident_or_dict_names(), single=("mandatory", "optional", "star1"),
                       group=("alternative", "or", "mutex", "card", "star"), layout="free", ctc_depth=3, ctc_max=3)

ANY = Profile(ident_names(), single=("mandatory", "optional", "card1"),
              group=("alternative", "or", "mutex", "card"), layout="free", wide=True,
              ftypes=("BOOLEAN", "BOOLEAN", "INTEGER", "REAL", "STRING"), fcards=True)


# ------------------------------------------------------------------ attribute values
def plain_floats():
    """Floats built from a decimal string with <= 6 fraction digits (repr has no exponent)."""
    return st.builds(lambda sign, i, frac: {"$float": f"{sign}{i}.{frac}"},
                     st.sampled_from(["", "-"]), st.one_of(st.integers(0, 2), st.integers(0, 99999)),
                     st.text(alphabet=string.digits, min_size=1, max_size=6)).map(_norm_float)


def _norm_float(v):
    x = float(v["$float"])
    if x != 0 and abs(x) < 1e-4:          # repr would use an exponent: outside 'plain decimal'
        x = x + (0.1 if x > 0 else -0.1)
    return {"$float": repr(x)}


CONFUSABLE_STRINGS = ["true", "false", "True", "False", "null", "None", "0", "1", "-1", "1.0", "1e3", "NaN", "Infinity",
                      "[]", "{}", "[1]", "\"q\"", "abstract", "value", "name"]


def any_finite_floats():
    """Every finite double (JSON carries them all: exponents, subnormals, -0.0, 17 significant digits)."""
    return st.one_of(st.floats(allow_nan=False, allow_infinity=False),
                     st.sampled_from([1e300, 1e-300, 5e-324, -0.0, 0.1 + 0.2, 1e16, 1.7976931348623157e308, 1e22, 1e23])).map(
        lambda x: {"$float": repr(x)})


def json_scalars(strs):
    return st.one_of(any_finite_floats(), st.sampled_from(CONFUSABLE_STRINGS), st.none(), st.booleans(), st.integers(-10**12, 10**12),
                     st.sampled_from([0, 1, -1, 2**63, -2**70]), plain_floats(), strs,
                     st.sampled_from([0, False, "", {"$float": "0.0"}]))


FORMAT_VOCABULARY = ["name", "value", "type", "operands", "features", "relations", "constraints", "attributes", "card_min",
                     "card_max", "abstract", "children", "expr", "ast", "id", "min", "max", "optional", "tree", "note"]


def record_shaped_values():
    """User data that looks like the serialisation's own structures: lists of {'name': .., 'value': ..} records, dicts
    keyed by the format's vocabulary."""
    rec = st.fixed_dictionaries({"name": st.sampled_from(["http", "https", "x", "a b"])},
                                optional={"value": st.one_of(st.integers(0, 999), st.booleans(), st.none(), st.just("v"))})
    return st.one_of(st.lists(rec, min_size=1, max_size=3, unique_by=lambda r: r["name"]),
                     st.dictionaries(st.sampled_from(FORMAT_VOCABULARY), st.one_of(st.integers(0, 9), st.just("s"), st.booleans()),
                                     min_size=1, max_size=3),
                     st.lists(st.dictionaries(st.sampled_from(FORMAT_VOCABULARY), st.integers(0, 9), min_size=1, max_size=2),
                              min_size=1, max_size=2))


def json_values(strs, keys):
    return st.recursive(st.one_of(json_scalars(strs), json_scalars(strs), json_scalars(strs), st.sampled_from(ESCAPE_LIKE),
                                  record_shaped_values()),
                        lambda ch: st.one_of(st.lists(ch, max_size=3),
                                             st.dictionaries(keys, ch, max_size=3)), max_leaves=6)


def _json_attrs(draw, fname):
    if draw(st.integers(0, 15)) == 0:
        anames = draw(st.lists(unicode_names(), min_size=6, max_size=14, unique=True))
        return [{"name": a, "value": draw(st.one_of(long_strings(), json_scalars(st.just("s"))))} for a in anames]
    if draw(st.integers(0, 2)):
        return []
    anames = draw(st.lists(unicode_names(), min_size=1, max_size=3, unique=True))
    strs = st.text(alphabet=st.characters(blacklist_categories=("Cs",)), max_size=6)
    keys = st.text(alphabet=st.characters(blacklist_categories=("Cs",)), max_size=4).filter(lambda k: k != "$float")
    return [{"name": a, "value": draw(json_values(strs, keys))} for a in anames]


def _ctc_names_unicode(draw, j):
    return draw(st.one_of(st.just(f"C{j}"), unicode_names().map(lambda s: f"{s}#{j}")))


JSON = Profile(any_unicode_names(), single=("mandatory", "optional"),
               group=("alternative", "or", "mutex", "card", "card", "star"), layout="free", attrs=_json_attrs,
               ctc_depth=4, ctc_max=4, ctc_names=_ctc_names_unicode, variants=VARIANTS_TEXT, wide=True)


def _ctc_names_distinct(draw, j):
    return draw(st.one_of(st.just(f"C{j}"), unicode_names().map(lambda s: f"{s}#{j}")))


GLENCOE = Profile(any_unicode_names(), single=("mandatory", "optional"),
                  group=("alternative", "or", "mutex", "card"), layout="one_group", group_plus_mandatory=True,
                  abstract=False, ctc_depth=3, ctc_max=4, ctc_names=_ctc_names_distinct, variants=VARIANTS_TEXT, wide=True)


def nary_chain(draw, names, ops=("AND", "OR"), max_operands=33):
    """Left-deep chain of one associative operator with 3..max_operands operands (literals or negated
    literals) - rendered as one n-ary rule/term by the reference emitters."""
    op = draw(st.sampled_from(list(ops)))
    k = draw(st.one_of(st.integers(3, 9), st.integers(3, max_operands)))
    lits = []
    for _ in range(k):
        t = ["T", draw(st.sampled_from(names))]
        lits.append(["NOT", t] if draw(st.integers(0, 3)) == 0 else t)
    e = lits[0]
    for x in lits[1:]:
        e = [op, e, x]
    return e


def _fide_ctc(draw, names, feats):
    if draw(st.integers(0, 7)) == 0:
        return ["T", draw(st.sampled_from(names))]
    if draw(st.integers(0, 5)) == 0:
        return nary_chain(draw, names)
    ops = ("NOT", "AND", "OR", "IMPLIES", "EQUIVALENCE", "REQUIRES", "EXCLUDES")
    return draw(expr_of_depth(names, ops, draw(st.integers(1, 4))))


FEATUREIDE = Profile(xml_names(), single=("mandatory", "optional"), group=("alternative", "or"),
                     layout="one_group", abstract=True, ctc_max=6, ctc_expr=_fide_ctc, variants=VARIANTS_TEXT, wide=True,
                     simple_ops=("NOT", "AND", "OR", "IMPLIES", "EQUIVALENCE", "REQUIRES", "EXCLUDES"))


# ------------------------------------------------------------------ AFM
def afm_value_specs():
    word = afm_names()
    lower = afm_attr_names()
    ints = st.integers(0, 10**6).map(str)
    dbl = st.builds(lambda a, b: f"{a}.{b}", st.integers(1, 999), st.text(alphabet=string.digits, min_size=1, max_size=3))
    strs = st.text(alphabet=st.sampled_from(string.ascii_letters + string.digits + " _-+*/.,:;()[]{}<>=!?#%&'|@^~\\"),
                   max_size=6).map(lambda s: '"' + s + '"')
    # the STRING token carries every character but the double quote (probed: line breaks and control characters too)
    wild = st.one_of(line_like_names('"'), st.sampled_from(["a\nb", "\r\n", "x\ry", "// c", "/* c */", "a;b", "%"])).map(
        lambda s: '"' + s + '"')
    return st.one_of(word, lower, ints, dbl, strs, st.sampled_from(['"é ñ"', '"日本"']), wild)


def _afm_attrs(draw, fname):
    if draw(st.integers(0, 2)):
        return []
    out = []
    for an in draw(st.lists(afm_attr_names(), min_size=1, max_size=2, unique=True)):
        if draw(st.booleans()):
            ranges = []
            for _ in range(draw(st.integers(1, 3))):
                lo = draw(st.integers(0, 1000))
                ranges.append([lo, lo + draw(st.integers(0, 1000))])
            out.append({"name": an, "ranges": ranges, "elements": None,
                        "default": str(draw(st.integers(0, 2000))), "null": str(draw(st.integers(0, 2000)))})
        else:
            els = draw(st.lists(afm_value_specs(), min_size=1, max_size=4))
            out.append({"name": an, "ranges": None, "elements": els,
                        "default": draw(st.one_of(st.sampled_from(els), afm_value_specs())),
                        "null": draw(afm_value_specs())})
    return out


AFM_OPS = ("NOT", "AND", "OR", "IMPLIES", "EQUIVALENCE", "REQUIRES", "EXCLUDES")
AFM = Profile(afm_names(), single=("mandatory", "optional"), group=("card", "card", "alternative", "or", "mutex"),
              layout="free", abstract=False, attrs=_afm_attrs, ctc_ops=AFM_OPS, ctc_depth=5, ctc_max=4, variants=VARIANTS_AFM, wide=True,
              sanitize=lambda s: s + "x" if s in AFM_KEYWORDS else s)


# ------------------------------------------------------------------ UVL
def uvl_attr_names():
    pool = ["cost", "w", "a b", "1x", "_u", "mandatory", "true", "é", "x-y", "Integer", "or", "k#", "q?"]
    return st.one_of(ident_names(6), st.sampled_from(pool), uvl_names()).filter(lambda s: s != "abstract")


def uvl_strings():
    alphabet = st.one_of(st.sampled_from(string.ascii_letters + string.digits + " _-+*/,:;()[]{}<>=!?#%&|@^~\"\\"),
                         st.characters(min_codepoint=0xA1, max_codepoint=0x2FFF,
                                       blacklist_categories=("Cc", "Cs", "Cn", "Zl", "Zp", "Cf", "Co")))
    return st.one_of(st.text(alphabet=alphabet, min_size=1, max_size=8), line_like_names("'."),
                     st.sampled_from([e for e in ESCAPE_LIKE if "'" not in e and "." not in e]),
                     st.sampled_from(["see // the manual", "a // b", "/* c */", "x /* y", "http://h/a//b", "{k 1}", "[1,2]",
                                      "features", "\\", "a\tb"]))


def uvl_values():
    scalars = st.one_of(st.none(), st.booleans(), st.integers(-10**9, 10**9), st.sampled_from([0, 1, -1, 2**70]),
                        plain_floats(), uvl_strings(), st.sampled_from(["true", "0", "abstract", "a b"]),
                        st.sampled_from([c for c in CONFUSABLE_STRINGS if "." not in c and "'" not in c]))
    inner = st.one_of(st.booleans(), st.integers(-1000, 1000), plain_floats(), uvl_strings())
    keys = st.one_of(ident_names(5), st.sampled_from(["a b", "1k", "or"]))
    return st.one_of(scalars, scalars,
                     st.recursive(inner, lambda ch: st.one_of(st.lists(ch, max_size=3),
                                                              st.dictionaries(keys, ch, max_size=3)), max_leaves=5))


def long_strings(forbidden=""):
    """Sentences of 20-90 characters with the separators pretty-printers and line wrappers split at."""
    words = st.sampled_from(["red", "green", "blue", "a", "I", "x1", "true", "10", "%", "and", "or", "{", "}", "[", "]", "(", ")"])
    seps = st.sampled_from([", ", "; ", ": ", " = ", " ", " - ", " / ", ",", " , "])
    return st.lists(st.tuples(words, seps), min_size=6, max_size=20).map(
        lambda ps: "".join(w + sp for w, sp in ps).strip() or "x").map(
        lambda t: "".join(ch for ch in t if ch not in forbidden) or "x")


def _uvl_attrs(draw, fname):
    if draw(st.integers(0, 11)) == 0:
        # a long declaration: many attributes and long string values (lines far beyond 100 characters)
        anames = draw(st.lists(uvl_attr_names(), min_size=6, max_size=14, unique=True))
        vals = st.one_of(uvl_values(), long_strings("'."), long_strings("'."))
        return [{"name": a, "value": draw(vals)} for a in anames]
    if draw(st.integers(0, 2)):
        return []
    anames = draw(st.lists(uvl_attr_names(), min_size=1, max_size=3, unique=True))
    return [{"name": a, "value": draw(uvl_values())} for a in anames]


UVL_LOGICAL = ("NOT", "AND", "OR", "IMPLIES", "EQUIVALENCE", "REQUIRES", "EXCLUDES")


def _uvl_ctc(draw, names, feats):
    kind = draw(st.integers(0, 5))
    if kind <= 2:
        return draw(expr_of_depth(names, UVL_LOGICAL, draw(st.integers(0, 4))))
    attr_pool = ["cost", "w", "a b", "1x", "é"]

    def ref():
        return ["T", draw(st.sampled_from(names)) + "." + draw(st.sampled_from(attr_pool))]

    def arith(d):
        c = draw(st.integers(0, 5))
        if d <= 0 or c == 0:
            return ref()
        if c == 1:
            return ["I", draw(st.integers(0, 10**6))]
        if c == 2:
            return ["F", draw(plain_floats())["$float"].lstrip("-")]
        if c == 3:
            return [draw(st.sampled_from(["SUM", "AVG"])), ["T", draw(st.sampled_from(attr_pool))],
                    ["T", draw(st.sampled_from(names))]]
        return [draw(st.sampled_from(logic.ARITH)), arith(d - 1), arith(d - 1)]

    op = draw(st.sampled_from(logic.COMPARISON))
    if op in ("EQUALS", "NOT_EQUALS") and draw(st.integers(0, 3)) == 0:
        lit = draw(st.one_of(st.text(alphabet=string.ascii_letters + string.digits + " _-+", min_size=1, max_size=5),
                             uvl_strings()))
        cmp_ = [op, ref(), ["S", "'" + lit + "'"]]
    else:
        cmp_ = [op, arith(2), arith(2)]
    if kind == 3:
        return cmp_
    if kind == 4:
        return [draw(st.sampled_from(["AND", "OR", "IMPLIES", "EQUIVALENCE"])), cmp_,
                draw(expr_of_depth(names, UVL_LOGICAL, 1))]
    return ["NOT", cmp_]


UVL = Profile(uvl_names(), single=("mandatory", "optional", "card1", "star1"),
              group=("alternative", "or", "mutex", "card", "star"), layout="free",
              ftypes=("BOOLEAN", "BOOLEAN", "BOOLEAN", "INTEGER", "REAL", "STRING"), fcards=True, abstract=True,
              attrs=_uvl_attrs, ctc_max=4, ctc_expr=_uvl_ctc, variants=VARIANTS_TEXT, wide=True, simple_ops=UVL_LOGICAL)


# ------------------------------------------------------------------ FaMa XML (any cardinalities, requires/excludes only)
def _fama_ctc(draw, names, feats):
    a, b = draw(st.sampled_from(names)), draw(st.sampled_from(names))
    return [draw(st.sampled_from(["REQUIRES", "EXCLUDES"])), ["T", a], ["T", b]]


FAMA = Profile(xml_names(), single=("mandatory", "optional", "card1"), group=("alternative", "or", "mutex", "card"),
               layout="free", abstract=False, ctc_max=4, ctc_expr=_fama_ctc, ctc_names=lambda draw, j: f"CTC-{j}", variants=VARIANTS_TEXT,
               wide=True, simple_ops=("REQUIRES", "EXCLUDES"))


def _glencoe_ctc(draw, names, feats):
    if draw(st.integers(0, 5)) == 0:
        return nary_chain(draw, names)
    return draw(expr_of_depth(names, logic.LOGICAL, draw(st.integers(0, 3))))


GLENCOE_3P = Profile(any_unicode_names(), single=("mandatory", "optional"), group=("alternative", "or", "mutex", "card"),
                     layout="one_group", group_plus_mandatory=True, abstract=False, ctc_max=4,
                     ctc_expr=_glencoe_ctc, ctc_names=_ctc_names_distinct, variants=VARIANTS_TEXT, wide=True,
                     simple_ops=logic.LOGICAL)


# ------------------------------------------------------------------ Clafer
CLAFER_RESERVED = {"not", "xor", "or", "mux", "opt", "abstract", "all", "no", "some", "one", "lone", "if", "then", "else",
                   "in", "this", "parent", "ref", "enum", "min", "max", "sum", "product", "assert"}


def clafer_sanitize(s):
    return s + "_" if s in CLAFER_RESERVED else s


def clafer_names():
    pool = ["-1", "+1", "007", "1e3", "0x10", "-", "+", "a--b", "%s", "{0}", "a b", "x-y", "my feat", "AND", "OR", "NOT", "XOR", "x OR y", "1st", "é", "a+b", "q?", "p:q", "not", "xor", "or"]
    free = st.text(alphabet=st.sampled_from(string.ascii_letters + string.digits + " _-+*/,;!#%&|@^~<>="), min_size=1,
                   max_size=6).map(lambda s: s.strip() or "z")
    reserved = CLAFER_RESERVED
    return st.one_of(ident_names(6), ident_names(6), st.sampled_from(pool), free, unicode_identifier_like(),
                     dict_names(_text_ok), st.sampled_from(["v1.2", "a.b", "x.y.z"])).map(
        lambda s: s + "_" if s in reserved else s)


def _clafer_attrs(draw, fname):
    if draw(st.integers(0, 2)):
        return []
    names_ = draw(st.lists(st.one_of(ident_names(5), st.sampled_from(["my attr", "x-y", "cost", "w"])), min_size=1,
                           max_size=2, unique=True))
    vals = st.one_of(st.booleans(), st.integers(-1000, 1000), plain_floats(),
                     st.text(alphabet=string.ascii_letters + string.digits + " _-", max_size=5))
    return [{"name": n, "value": draw(vals)} for n in names_]


CLAFER = Profile(clafer_names(), single=("mandatory", "optional"), group=("alternative", "or", "mutex", "card"),
                 layout="one_group", abstract=False, attrs=_clafer_attrs, ctc_max=4, ctc_depth=3, variants=VARIANTS_TEXT,
                 sanitize=clafer_sanitize)



# ------------------------------------------------------------------ equal-but-different twins
def eq_twin(draw, model):
    """A model that compares == to `model` under the library's FeatureModel.__eq__ (same names, relations and
    constraints) but differs in what that equality ignores: abstract flags, attribute values, child/relation/
    constraint order.  Used in histories to expose caches keyed on model equality."""
    import copy
    m = copy.deepcopy(model)

    def rec(f):
        if draw(st.booleans()):
            f["abstract"] = not f["abstract"]
        for a in f["attrs"]:
            if "value" in a and draw(st.booleans()):
                a["value"] = draw(st.sampled_from([None, 0, 7, True, "changed"]))
        for r in f["rels"]:
            if len(r["children"]) > 1 and draw(st.booleans()):
                r["children"] = list(reversed(r["children"]))
            for c in r["children"]:
                rec(c)
        if len(f["rels"]) > 1 and draw(st.booleans()):
            f["rels"] = list(reversed(f["rels"]))
    rec(m["root"])
    if len(m["ctcs"]) > 1 and draw(st.booleans()):
        m["ctcs"] = list(reversed(m["ctcs"]))
    return m


def concatenation_twins(draw, m):
    """Value-style attributes (UVL / JSON / Clafer): two attributes whose 'feature name + attribute name' spell the
    same text (Pay.palfee / Paypal.fee) - keys glued together without a separator cannot tell them apart."""
    from vf import build
    feats = [f for f, _ in build.iter_feats(m["root"])]
    taken = {f["name"] for f in feats}
    host = draw(st.sampled_from(feats))
    suffix = draw(st.sampled_from(["pal", "x", "a1", "fee", "q", "_b"]))
    tail = draw(st.sampled_from(["fee", "cost", "w", "a"]))
    new_name = host["name"] + suffix
    if new_name in taken or any(a["name"] in (suffix + tail, tail) for a in host["attrs"]):
        return m
    twin = build.feat(new_name)
    host["attrs"].append({"name": suffix + tail, "value": draw(st.integers(0, 9))})
    twin["attrs"].append({"name": tail, "value": draw(st.integers(10, 19))})
    parent = draw(st.sampled_from(feats))
    if parent["rels"] and len(parent["rels"][0]["children"]) >= 2:
        parent = next((f for f in feats if not f["rels"]), parent)      # keep one-group layouts intact: hang it on a leaf
    parent["rels"].append(build.rel(0, 1, [twin]))
    return m


def cap_clause_cost(e, limit=400):
    """Constructive bound (not a filter): while the clause conversion of a logical constraint would exceed `limit`
    clauses - exponential territory for the library's normal-form code - it is replaced by its first operand."""
    while e[0] not in logic.LEAF and logic.is_logical(e) and logic.clause_cost(e, limit) is None:
        e = e[1]
    return e
