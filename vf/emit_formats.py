"""Independent reference emitters for FeatureIDE XML, FaMa XML, AFM and Glencoe JSON, written from the
formats' definitions (no code shared with /repo).  All surface decisions are drawn from Hypothesis.

Each emit_*(draw, model) returns (text, labels); labels name the syntactic freedoms used that the
library's own writer never uses.
"""
import json
from xml.sax.saxutils import escape, quoteattr

from hypothesis import strategies as st

from vf import build, logic


class Base:
    def __init__(self, draw):
        self.draw = draw
        self.labels = set()

    def flip(self, num=1, den=2):
        return self.draw(st.integers(0, den - 1)) < num

    def pick(self, xs):
        return self.draw(st.sampled_from(xs))

    def attrs(self, pairs):
        """XML attributes in a drawn order."""
        pairs = [(k, v) for k, v in pairs if v is not None]
        if len(pairs) > 1 and self.flip():
            pairs = self.draw(st.permutations(pairs))
            self.labels.add("attribute-order")
        return "".join(f" {k}={quoteattr(v)}" for k, v in pairs)


def flatten(e, op):
    """Operands of a maximal chain of the same associative operator."""
    if e[0] == op:
        return flatten(e[1], op) + flatten(e[2], op)
    return [e]


# ====================================================================== FeatureIDE
class FeatureIDE(Base):
    def feature(self, f, parent_kind, depth, out, mand=False):
        ind = "\t" * depth if self.indent else ""
        kids = [c for r in f["rels"] for c in r["children"]]
        if not kids:
            tag = "feature"
        elif len(f["rels"]) == 1 and len(kids) >= 2:
            lo, hi = f["rels"][0]["min"], f["rels"][0]["max"]
            tag = "alt" if (lo, hi) == (1, 1) else "or"
        else:
            tag = "and"
        pairs = [("name", f["name"])]
        if parent_kind == "and":
            if mand:
                pairs.append(("mandatory", "true"))
            elif self.flip():
                pairs.append(("mandatory", "false"))
                self.labels.add('mandatory="false"')
        if parent_kind in ("or", "alt") and self.flip(1, 4):
            # a (possibly stale) mandatory flag on a member of an or-/alt- group has no meaning in FeatureIDE
            pairs.append(("mandatory", self.pick(["true", "false"])))
            self.labels.add("mandatory-flag-on-group-member")
        if f["abstract"]:
            pairs.append(("abstract", "true"))
        elif self.flip(1, 4):
            pairs.append(("abstract", "false"))
            self.labels.add('abstract="false"')
        if self.flip(1, 5):
            pairs.append(("hidden", self.pick(["true", "false"])))
            self.labels.add("hidden-attribute")
        extras = []
        if self.flip(1, 5):
            extras.append('<graphics key="collapsed" value="false"/>')
            self.labels.add("graphics-in-feature")
        if self.flip(1, 5):
            extras.append("<description>" + escape(self.pick(["A description", "uses <tags> & such", "  "])) + "</description>")
            self.labels.add("description-in-feature")
        head = f"{ind}<{tag}{self.attrs(pairs)}"
        if not kids and not extras:
            out.append(head + "/>")
            return
        out.append(head + ">")
        for x in extras:
            out.append(ind + ("\t" if self.indent else "") + x)
        for r in f["rels"]:
            for c in r["children"]:
                self.feature(c, tag, depth + 1, out, mand=(tag == "and" and (r["min"], r["max"]) == (1, 1)))
        out.append(f"{ind}</{tag}>")

    def rule(self, e):
        tag = e[0]
        if tag == "T":
            return "<var>" + escape(e[1], {"\r": "&#13;"}) + "</var>"
        if tag == "NOT":
            return "<not>" + self.rule(e[1]) + "</not>"
        if tag in ("AND", "OR"):
            el = "conj" if tag == "AND" else "disj"
            ops = flatten(e, tag) if self.flip(2, 3) else [e[1], e[2]]
            if len(ops) > 2:
                self.labels.add("n-ary-rule")
            return f"<{el}>" + "".join(self.rule(o) for o in ops) + f"</{el}>"
        if tag in ("IMPLIES", "REQUIRES"):
            return "<imp>" + self.rule(e[1]) + self.rule(e[2]) + "</imp>"
        if tag == "EQUIVALENCE":
            return "<eq>" + self.rule(e[1]) + self.rule(e[2]) + "</eq>"
        if tag == "EXCLUDES":
            return "<imp>" + self.rule(e[1]) + "<not>" + self.rule(e[2]) + "</not></imp>"
        raise ValueError(tag)

    def document(self, model):
        self.indent = self.flip(3, 4)
        out = []
        decl = self.pick(['<?xml version="1.0" encoding="UTF-8" standalone="no"?>', '<?xml version="1.0" encoding="UTF-8"?>',
                          "<?xml version='1.0' encoding='UTF-8'?>", ""])
        if decl:
            out.append(decl)
        out.append("<featureModel>" if self.flip() else '<featureModel chosenLayoutAlgorithm="1">')
        if self.flip(1, 3):
            out.append('\t<properties>\n\t\t<graphics key="legendautolayout" value="true"/>\n\t</properties>')
            self.labels.add("extra-section:properties")
        out.append("\t<struct>")
        self.feature(model["root"], "struct", 2, out)
        out.append("\t</struct>")
        if model["ctcs"]:
            out.append("\t<constraints>")
            for c in model["ctcs"]:
                rule = "\t\t<rule>"
                if self.flip(1, 4):
                    rule += "<description>" + escape(self.pick(["why", "a & b"])) + "</description>"
                    self.labels.add("description-in-rule")
                if self.flip(1, 6):
                    rule += '<graphics key="x" value="1"/>'
                    self.labels.add("graphics-in-rule")
                out.append(rule + self.rule(c["ast"]) + "</rule>")
            out.append("\t</constraints>")
        else:
            how = self.pick(["empty", "self-closed", "absent", "absent"])
            if how == "empty":
                out.append("\t<constraints>\n\t</constraints>")
            elif how == "self-closed":
                out.append("\t<constraints/>")
            else:
                self.labels.add("constraints-section-absent")
        for extra, txt in (("calculations", '\t<calculations Auto="true" Constraints="true" Features="true" Redundant="true" Tautology="true"/>'),
                           ("comments", "\t<comments/>"), ("featureOrder", '\t<featureOrder userDefined="false"/>')):
            if self.flip(1, 3):
                out.append(txt)
                self.labels.add("extra-section:" + extra)
        out.append("</featureModel>")
        return "\n".join(out) + ("\n" if self.flip() else "")


def emit_featureide(draw, model):
    em = FeatureIDE(draw)
    return em.document(model), sorted(em.labels)


# ====================================================================== FaMa XML
class FaMa(Base):
    def relation(self, r, depth, out, counter):
        ind = "\t" * depth
        n = len(r["children"])
        setrel = n >= 2 or (n == 1 and self.flip(1, 6))
        tag = "setRelation" if setrel else "binaryRelation"
        child_tag = "groupedFeature" if setrel else "solitaryFeature"
        if setrel and n == 1:
            self.labels.add("setRelation-with-one-child")
        counter[0] += 1
        pairs = []
        if self.flip(3, 4):
            pairs.append(("name", f"R-{counter[0]}"))
        else:
            self.labels.add("relation-without-name")
        out.append(f"{ind}<{tag}{self.attrs(pairs)}>")
        card = f'{ind}\t<cardinality{self.attrs([("min", str(r["min"])), ("max", str(r["max"]))])}/>'
        after = self.flip(1, 3)
        if not after:
            out.append(card)
        else:
            self.labels.add("cardinality-after-children")
        for c in r["children"]:
            self.feature(c, child_tag, depth + 1, out, counter)
        if after:
            out.append(card)
        out.append(f"{ind}</{tag}>")

    def feature(self, f, tag, depth, out, counter):
        ind = "\t" * depth
        if self.flip(1, 10):
            out.append(f"{ind}<!-- {self.pick(['a comment', 'feature', 'x > y'])} -->")
            self.labels.add("xml-comment")
        if not f["rels"]:
            out.append(f"{ind}<{tag} name={quoteattr(f['name'])}" + ("/>" if self.flip() else f"></{tag}>"))
            return
        out.append(f"{ind}<{tag} name={quoteattr(f['name'])}>")
        for r in f["rels"]:
            self.relation(r, depth + 1, out, counter)
        out.append(f"{ind}</{tag}>")

    def document(self, model):
        out = []
        bom = self.flip(1, 3)
        if bom:
            self.labels.add("utf8-bom")
        out.append(self.pick(['<?xml version="1.0" encoding="UTF-8" standalone="no"?>', '<?xml version="1.0" encoding="UTF-8" ?>']))
        if self.flip():
            out.append('<feature-model xmlns:xsi="http://www.w3.org/2001/XMLSchema-instance" '
                       'xsi:noNamespaceSchemaLocation="http://www.tdg-seville.info/benavides/featuremodelling/feature-model.xsd">')
            self.labels.add("namespace-attributes")
        else:
            out.append("<feature-model>")
        counter = [0]
        self.feature(model["root"], "feature", 1, out, counter)
        for i, c in enumerate(model["ctcs"]):
            kind = c["ast"][0].lower()
            a, b = c["ast"][1][1], c["ast"][2][1]
            out.append("\t<" + kind + self.attrs([("name", c["name"]), ("feature", a), (kind, b)]) + "/>")
        out.append("</feature-model>")
        text = "\n".join(out) + "\n"
        if not self.flip(3, 4):
            text = text.replace("\n", "").replace("\t", "")
            self.labels.add("no-whitespace")
        return ("\ufeff" if bom else "") + text


def emit_fama(draw, model):
    em = FaMa(draw)
    return em.document(model), sorted(em.labels)


# ====================================================================== AFM
AFM_KW = {"AND": "AND", "OR": "OR", "NOT": "NOT", "EQUIVALENCE": "IFF", "IMPLIES": "IMPLIES",
          "REQUIRES": "REQUIRES", "EXCLUDES": "EXCLUDES"}
AFM_PREC = {"NOT": 4, "AND": 3, "OR": 2, "EQUIVALENCE": 1, "IMPLIES": 1, "REQUIRES": 1, "EXCLUDES": 1}


class AFM(Base):
    def sp(self):
        return self.pick([" ", " ", "  ", "\t"])

    def relationship(self, f):
        parts = []
        for r in f["rels"]:
            names = [c["name"] for c in r["children"]]
            if len(names) == 1 and (r["min"], r["max"]) == (1, 1):
                parts.append(names[0])
            elif len(names) == 1 and (r["min"], r["max"]) == (0, 1):
                parts.append("[" + names[0] + "]")
            else:
                gap = "" if self.flip() else " "
                parts.append(f"[{r['min']},{r['max']}]{gap}{{" + self.sp().join(names) + "}")
        colon = self.pick([" : ", ": ", " :  "])
        return f["name"] + colon + self.sp().join(parts) + ";"

    def expr(self, e, parent=None):
        tag = e[0]
        if tag == "T":
            s = e[1]
            if self.flip(1, 8):
                self.labels.add("redundant-parentheses")
                return "(" + s + ")"
            return s
        if tag == "NOT":
            inner = self.expr(e[1], "NOT")
            if e[1][0] != "T" and not inner.startswith("("):
                inner = "(" + inner + ")"
            s = "NOT " + inner
            if parent is not None:
                return "(" + s + ")"       # the grammar does not accept NOT directly after a binary keyword
            return s
        s = self.expr(e[1], tag) + " " + AFM_KW[tag] + " " + self.expr(e[2], tag)
        if parent is None:
            if self.flip(1, 6):
                self.labels.add("redundant-parentheses")
                return "(" + s + ")"
            return s
        if parent != "NOT" and AFM_PREC[tag] > AFM_PREC[parent] and self.flip():
            self.labels.add("parentheses-omitted-by-precedence")
            return s
        return "(" + s + ")"

    def document(self, model, negative=False):
        lines = ["%Relationships"]
        order = [f for f, _ in build.iter_feats(model["root"]) if f["rels"]]
        if len(order) > 2 and self.flip():
            # any parents-first order: breadth-first instead of pre-order
            bfs, queue = [], [model["root"]]
            while queue:
                f = queue.pop(0)
                if f["rels"]:
                    bfs.append(f)
                queue.extend(c for r in f["rels"] for c in r["children"])
            order = bfs
            self.labels.add("breadth-first-relationship-order")
        for f in order:
            lines.append(self.relationship(f))
        lines.append("")
        lines.append("%Attributes")
        for f, _ in build.iter_feats(model["root"]):
            for a in f["attrs"]:
                if a.get("ranges"):
                    dom = "Integer " + "".join(f"[{lo} to {hi}]" for lo, hi in a["ranges"])
                else:
                    dom = "[" + ",".join(a["elements"]) + "]"
                lines.append(f"{f['name']}.{a['name']}: {dom},{a['default']},{a['null']};")
        lines.append("")
        lines.append("%Constraints")
        for c in model["ctcs"]:
            lines.append(self.expr(c["ast"]) + ";")
        if negative:
            names = build.names(model)
            a = self.pick(names)
            kind = self.pick(["relational", "arithmetic", "relational-feature"])
            if kind == "relational":
                lines.append(f"{a}.cost > 5;")
            elif kind == "arithmetic":
                lines.append(f"{a}.cost + {self.pick(names)}.cost <= 10;")
            else:
                lines.append(f"{a} REQUIRES ({self.pick(names)}.cost == 3);")
            self.labels.add("unrepresentable:" + kind)
        nl = "\n"
        return nl.join(lines) + "\n"


def emit_afm(draw, model, negative=False):
    em = AFM(draw)
    return em.document(model, negative), sorted(em.labels)


# ====================================================================== Glencoe
GL_TERM = {"NOT": "NotTerm", "AND": "AndTerm", "OR": "OrTerm", "XOR": "XorTerm", "IMPLIES": "ImpliesTerm",
           "REQUIRES": "ImpliesTerm", "EXCLUDES": "ExcludesTerm", "EQUIVALENCE": "EquivalentTerm"}


class Glencoe(Base):
    def document(self, model):
        feats = [f for f, _ in build.iter_feats(model["root"])]
        ids = {}
        style = self.pick(["name", "Feature_n", "Feature_n", "uuid-like", "shifted-names"])
        if style == "shifted-names" and len(feats) < 2:
            style = "Feature_n"
        if style != "name":
            self.labels.add("id-differs-from-name")
        if style == "shifted-names":
            self.labels.add("id-is-another-features-name")      # e.g. after renaming features in an editor
        for i, f in enumerate(feats):
            if style == "shifted-names":
                ids[f["name"]] = feats[(i + 1) % len(feats)]["name"]
            else:
                ids[f["name"]] = f["name"] if style == "name" else (f"Feature_{i + 1}" if style == "Feature_n" else f"f-{i:04x}-{len(f['name'])}")
        optional = {model["root"]["name"]: self.flip()}
        table = {}
        for f in feats:
            groups = [r for r in f["rels"] if len(r["children"]) >= 2]
            ftype, extra = "FEATURE", {}
            if groups:
                g = groups[0]
                n = len(g["children"])
                lo, hi = g["min"], g["max"]
                if (lo, hi) == (1, 1) and self.flip(3, 4):
                    ftype = "XOR"
                elif (lo, hi) == (1, n) and self.flip(3, 4):
                    ftype = "OR"
                else:
                    ftype, extra = "GENOR", {"min": lo, "max": hi}
                    if (lo, hi) in ((1, 1), (1, n)):
                        self.labels.add("named-group-as-GENOR")
            for r in f["rels"]:
                for c in r["children"]:
                    if len(r["children"]) >= 2:
                        optional[c["name"]] = True
                    else:
                        optional[c["name"]] = (r["min"], r["max"]) == (0, 1)
            entry = {"name": f["name"], "optional": None, "type": ftype}
            entry.update(extra)
            if self.flip(2, 3):
                entry["note"] = self.pick(["", "a note", "ünï"])
            else:
                self.labels.add("note-absent")
            table[ids[f["name"]]] = entry
        for f in feats:
            table[ids[f["name"]]]["optional"] = optional[f["name"]]

        def tree(f):
            node = {"id": ids[f["name"]]}
            kids = [c for r in f["rels"] for c in r["children"]]
            if kids:
                if len(kids) > 1 and self.flip():
                    kids = self.draw(st.permutations(kids))
                node["children"] = [tree(c) for c in kids]
            elif self.flip(1, 8):
                node["children"] = []
                self.labels.add("empty-children-list")
            return node

        def term(e):
            if e[0] == "T":
                return {"type": "FeatureTerm", "operands": [ids[e[1]]]}
            if e[0] == "NOT":
                return {"type": "NotTerm", "operands": [term(e[1])]}
            if e[0] in ("AND", "OR"):
                ops = flatten(e, e[0]) if self.flip(2, 3) else [e[1], e[2]]
                if len(ops) > 2:
                    self.labels.add("n-ary-term")
                return {"type": GL_TERM[e[0]], "operands": [term(o) for o in ops]}
            return {"type": GL_TERM[e[0]], "operands": [term(e[1]), term(e[2])]}

        keys = list(table)
        if len(keys) > 1 and self.flip():
            keys = self.draw(st.permutations(keys))
            self.labels.add("feature-table-order")
        doc = {"id": "FM_1", "name": self.pick(["FM", "My model", "mödel"]),
               "features": {k: table[k] for k in keys}, "tree": tree(model["root"]),
               "constraints": {c["name"]: term(c["ast"]) for c in model["ctcs"]}}
        top = list(doc)
        if self.flip():
            top = self.draw(st.permutations(top))
            self.labels.add("top-level-key-order")
        doc = {k: doc[k] for k in top}
        indent = self.pick([None, 2, 4, "\t"])
        ascii_ = self.flip()
        if not ascii_:
            self.labels.add("raw-unicode")
        return json.dumps(doc, indent=indent, ensure_ascii=ascii_) + ("\n" if self.flip() else "")


def emit_glencoe(draw, model):
    em = Glencoe(draw)
    return em.document(model), sorted(em.labels)
