"""Strict validity filter for AFM text on top of the raw afmparser (dependency): parser + lexer
error listeners and full-input consumption (the grammar's start rule has no EOF anchor)."""
from antlr4 import CommonTokenStream, InputStream, Token
from antlr4.error.ErrorListener import ErrorListener
from afmparser.AFMLexer import AFMLexer
from afmparser.AFMParser import AFMParser


class _L(ErrorListener):
    def __init__(self):
        super().__init__()
        self.errors = []

    def syntaxError(self, recognizer, offendingSymbol, line, column, msg, e):  # noqa: N802,N803
        self.errors.append(f"{line}:{column} {msg}")


def strict_errors(text: str) -> list:
    """[] when the whole text is a syntactically valid AFM document."""
    lst = _L()
    lexer = AFMLexer(InputStream(text))
    lexer.removeErrorListeners()
    lexer.addErrorListener(lst)
    stream = CommonTokenStream(lexer)
    parser = AFMParser(stream)
    parser.removeErrorListeners()
    parser.addErrorListener(lst)
    parser.feature_model()
    errs = list(lst.errors)
    if stream.LA(1) != Token.EOF:
        tok = stream.LT(1)
        errs.append(f"input not consumed: stopped at line {tok.line}:{tok.column} {tok.text!r}")
    return errs
