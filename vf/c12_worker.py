"""Subprocess side of C12: rebuild the models of a batch, run the writers, print digests (and,
when asked, read the files back and report the names).  Runs under the environment chosen by the
parent (hash seed, locale, UTF-8 mode)."""
import hashlib
import json
import locale
import os
import sys
import tempfile


def main(path):
    from vf import env
    env.assert_repo()
    from vf import build
    import flamapy.metamodels.fm_metamodel.transformations as T
    from flamapy.metamodels.fm_metamodel.transformations.pl_writer import PLWriter
    writers = {"uvl": T.UVLWriter, "afm": T.AFMWriter, "json": T.JSONWriter, "glencoe": T.GlencoeWriter,
               "featureide": T.FeatureIDEWriter, "splot": T.SPLOTWriter, "clafer": T.ClaferWriter, "pl": PLWriter}
    readers = {"uvl": T.UVLReader, "afm": T.AFMReader, "json": T.JSONReader, "glencoe": T.GlencoeReader,
               "featureide": T.FeatureIDEReader}
    with open(path, encoding="utf-8") as fh:
        batch = json.load(fh)
    out = {"preferred_encoding": locale.getpreferredencoding(False), "hashseed": os.environ.get("PYTHONHASHSEED"),
           "items": []}
    tmp = tempfile.mkdtemp(prefix="vf-c12-")
    try:
        for i, item in enumerate(batch["items"]):
            res = {}
            try:
                fm = build.build(item["model"])
                p = os.path.join(tmp, f"out{i}")
                ret = writers[item["writer"]](p, fm).transform()
                with open(p, "rb") as fh:
                    data = fh.read()
                res["file_sha"] = hashlib.sha256(data).hexdigest()
                res["ret_sha"] = hashlib.sha256(ret if isinstance(ret, bytes) else ret.encode("utf-8")).hexdigest()
                if batch.get("read_back") and item["writer"] in readers:
                    try:
                        m = readers[item["writer"]](p).transform()
                        feats, _ = build.walk_objects(m)
                        res["names"] = sorted(f.name for f in feats)
                        res["attr_strings"] = sorted(str(x) for f in feats for a in f.attributes
                                                     for x in ((a.domain.element_list if a.domain else []) + [a.default_value]))
                    except Exception as exc:  # noqa: BLE001
                        res["read_error"] = f"{type(exc).__name__}: {exc}"[:200]
            except Exception as exc:  # noqa: BLE001
                res["write_error"] = f"{type(exc).__name__}: {exc}"[:200]
            out["items"].append(res)
    finally:
        import shutil
        shutil.rmtree(tmp, ignore_errors=True)
    sys.stdout.write(json.dumps(out, ensure_ascii=True))


if __name__ == "__main__":
    main(sys.argv[1])
