"""String constants of the code under test, used as a fuzzing dictionary for names.

Every string literal (2..30 characters) in the package's own sources is a candidate feature / attribute name:
sentinels, keywords, tags and type names compared with == somewhere in the code are exactly the values a
generator never hits by chance.  Computed from the working tree that is being checked (VF_REPO or /repo)."""
import ast
import functools
import os

from vf import env


@functools.lru_cache(maxsize=None)
def words():
    root = os.path.join(env.repo_root(), "flamapy", "metamodels", "fm_metamodel")
    found = set()
    for base, _dirs, files in os.walk(root):
        for fn in files:
            if not fn.endswith(".py"):
                continue
            try:
                tree = ast.parse(open(os.path.join(base, fn), encoding="utf-8").read())
            except (SyntaxError, OSError, UnicodeDecodeError):
                continue
            for node in ast.walk(tree):
                if isinstance(node, ast.Constant) and isinstance(node.value, str) and 2 <= len(node.value) <= 30:
                    if "\n" not in node.value and "\r" not in node.value:
                        found.add(node.value)
    return sorted(found)


def words_matching(pred):
    return [w for w in words() if pred(w)]
