"""Helpers shared by the oracles: calling the library, labelling its exceptions."""
import os
import shutil
import tempfile
import traceback

PKG_MARK = os.sep + os.path.join("flamapy", "metamodels", "fm_metamodel") + os.sep


def exc_label(exc: BaseException) -> str:
    """'<Type>@<innermost fm_metamodel function>' - stable across line-number changes."""
    where = "outside"
    for fs in reversed(traceback.extract_tb(exc.__traceback__)):
        if PKG_MARK in fs.filename:
            where = f"{os.path.basename(fs.filename)[:-3]}.{fs.name}"
            break
    return f"{type(exc).__name__}@{where}"


class Raised:
    def __init__(self, exc):
        self.exc = exc
        self.label = exc_label(exc)
        self.text = f"{type(exc).__name__}: {exc}"[:300]


def lib(fn, *args, **kwargs):
    """Call into the library.  Returns the value, or a Raised instance."""
    try:
        return fn(*args, **kwargs)
    except Exception as exc:  # noqa: BLE001 - library failure becomes data
        return Raised(exc)


class Scratch:
    """Per-case temporary directory (removed at exit)."""

    _count = 0

    def __enter__(self):
        # a blank in the path: readers split/join paths themselves.  Every third directory lives on another file
        # system than the process's temporary directory when one is available (/dev/shm): code that stages output in
        # tempfile.gettempdir() and renames it into place only works within one file system
        Scratch._count += 1
        base = None
        if Scratch._count % 3 == 0:
            base = _other_filesystem()
        self.dir = tempfile.mkdtemp(prefix="vf tmp-", dir=base)
        self._cwd = None
        return self

    def relative(self, name):
        """Make the scratch directory the working directory and return the bare file name (restored at exit)."""
        if self._cwd is None:
            self._cwd = os.getcwd()
            os.chdir(self.dir)
        return name

    def path(self, name):
        return os.path.join(self.dir, name)

    def __exit__(self, *a):
        if self._cwd is not None:
            os.chdir(self._cwd)
        shutil.rmtree(self.dir, ignore_errors=True)
        return False


_OTHER_FS = []


def _other_filesystem():
    if not _OTHER_FS:
        cand = "/dev/shm"
        ok = None
        try:
            if os.path.isdir(cand) and os.access(cand, os.W_OK) and os.stat(cand).st_dev != os.stat(tempfile.gettempdir()).st_dev:
                ok = cand
        except OSError:
            ok = None
        _OTHER_FS.append(ok)
    return _OTHER_FS[0]
