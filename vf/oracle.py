"""Helpers shared by the oracles: calling the library, labelling its exceptions."""
import os
import shutil
import tempfile
import traceback

PKG_MARK = os.sep + os.path.join("flamapy", "metamodels", "fm_metamodel") + os.sep


def exc_label(exc: BaseException) -> str:
    """'<Type>@<innermost fm_metamodel function>' - stable across line-number changes."""
    where = "outside"
    for fs in reversed(traceback.extract_tb(exc.__traceback__)):
        if PKG_MARK in fs.filename:
            where = f"{os.path.basename(fs.filename)[:-3]}.{fs.name}"
            break
    return f"{type(exc).__name__}@{where}"


class Raised:
    def __init__(self, exc):
        self.exc = exc
        self.label = exc_label(exc)
        self.text = f"{type(exc).__name__}: {exc}"[:300]


def lib(fn, *args, **kwargs):
    """Call into the library.  Returns the value, or a Raised instance."""
    try:
        return fn(*args, **kwargs)
    except Exception as exc:  # noqa: BLE001 - library failure becomes data
        return Raised(exc)


class Scratch:
    """Per-case temporary directory (removed at exit)."""

    def __enter__(self):
        self.dir = tempfile.mkdtemp(prefix="vf tmp-")     # a blank in the path: readers split/join paths themselves
        return self

    def path(self, name):
        return os.path.join(self.dir, name)

    def __exit__(self, *a):
        shutil.rmtree(self.dir, ignore_errors=True)
        return False
