"""Brute-force configuration semantics of a Boolean ModelSpec (independent of the library).

Rules: root selected; a child needs its parent; for each relation of a selected parent the
number of selected children lies in [min, max] (max == -1: unbounded); children of an unselected
parent are unselected; every constraint is true under standard propositional semantics.
"""
import itertools

from vf import logic
from vf.build import iter_feats


def _subtree_configs(f: dict) -> list:
    """All selections (frozensets of names) of f's subtree given that f is selected."""
    per_rel = []
    for r in f["rels"]:
        kids = r["children"]
        n = len(kids)
        hi = n if r["max"] == -1 else min(r["max"], n)
        lo = r["min"]
        kid_cfgs = [_subtree_configs(k) for k in kids]
        choices = []
        for k in range(lo, hi + 1):
            for combo in itertools.combinations(range(n), k):
                for prod in itertools.product(*(kid_cfgs[i] for i in combo)):
                    s = frozenset().union(*prod) if prod else frozenset()
                    choices.append(s)
        per_rel.append(choices)
    out = []
    base = frozenset([f["name"]])
    for prod in itertools.product(*per_rel):
        out.append(base.union(*prod) if prod else base)
    return out


def tree_configs(model: dict) -> list:
    return _subtree_configs(model["root"])


def configs(model: dict) -> list:
    all_names = [f["name"] for f, _ in iter_feats(model["root"])]
    out = []
    ctcs = [c["ast"] for c in model.get("ctcs", [])]
    for cfg in tree_configs(model):
        env = {"ref:" + n: (n in cfg) for n in all_names}
        if all(logic.evaluate(c, env) for c in ctcs):
            out.append(cfg)
    return out


def tree_valid(model: dict, sel: frozenset) -> bool:
    """Direct (non-enumerating) validity predicate of a selection w.r.t. the tree rules."""
    root = model["root"]
    if root["name"] not in sel:
        return False
    for f, parent in iter_feats(root):
        if f["name"] in sel and parent is not None and parent["name"] not in sel:
            return False
        for r in f["rels"]:
            k = sum(c["name"] in sel for c in r["children"])
            if f["name"] in sel:
                hi = len(r["children"]) if r["max"] == -1 else r["max"]
                if not r["min"] <= k <= hi:
                    return False
            elif k:
                return False
    return True


def valid(model: dict, sel: frozenset) -> bool:
    if not tree_valid(model, sel):
        return False
    all_names = [f["name"] for f, _ in iter_feats(model["root"])]
    env = {"ref:" + n: (n in sel) for n in all_names}
    return all(logic.evaluate(c["ast"], env) for c in model.get("ctcs", []))
