"""C06 - AFM round trip returns the same model, at any number of cycles."""
import itertools

from hypothesis import strategies as st

from vf import build, logic, roundtrip as rt, strategies as S
from vf.oracle import Scratch
from vf.props.c03 import rel_class
from vf.runner import Sub

ID = "C06"
RULE = ("Cases are models of the AFM fragment: names matching the AFM WORD token (incl. near-keywords), mandatory/optional children "
        "and [a,b] groups (0<=a<=b<=n, n>=2), several relations of any kind under one parent, attributes with 1-3 integer ranges or "
        "an enumerated list of AFM value_spec strings plus default and null values, constraints over NOT + {AND, OR, IMPLIES, "
        "EQUIVALENCE, REQUIRES, EXCLUDES}: exhaustively all trees of depth <= 2 on 3 names (21 663 trees packed 40 per model; a "
        "seeded 1/10 slice in quick) and random trees to depth 5; cycle count 3..4. Non-trivial: a constraint with two different "
        "binary operators or a NOT over a binary operator, or an attribute block, or >=2 relations under a parent.")
ASSUMPTIONS = ["attribute default/null values are AFM value_spec strings (what AFMReader produces and AFMWriter concatenates)",
               "constraints are matched one-to-one under truth-table equivalence (the reader may drop parentheses nodes)",
               "texts are compared from cycle 2 on, observations from cycle 1 on"]

N3 = ["A", "B", "C"]
BIN = [o for o in S.AFM_OPS if o != "NOT"]


def _trees(depth):
    if depth == 0:
        return [["T", n] for n in N3]
    smaller = _trees(depth - 1)
    out = list(smaller)
    seen = {logic.canon(e) for e in out}
    for e in [["NOT", x] for x in smaller] + [[op, a, b] for op in BIN for a, b in itertools.product(smaller, smaller)]:
        k = logic.canon(e)
        if k not in seen:
            seen.add(k)
            out.append(e)
    return out


_CACHE = {}


def enum_trees(tier, seed):
    if "t" not in _CACHE:
        _CACHE["t"] = _trees(2)
    trees = _CACHE["t"]
    if tier != "thorough":
        stride = 10
        trees = trees[int(seed) % stride::stride]
    root = build.feat("A", [build.rel(0, 1, [build.feat("B")]), build.rel(0, 1, [build.feat("C")])])
    cases = []
    for i in range(0, len(trees), 40):
        chunk = trees[i:i + 40]
        cases.append({"model": {"root": root, "ctcs": [{"name": f"C{j}", "ast": e} for j, e in enumerate(chunk)]},
                      "cycles": 3})
    return cases


def spec_attrs(f):
    out = {}
    for a in f["attrs"]:
        out[a["name"]] = {
            "ranges": [[{"int": lo}, {"int": hi}] for lo, hi in (a.get("ranges") or [])],
            "elements": [{"str": e} for e in (a.get("elements") or [])],
            "default": {"str": a["default"]}, "null": {"str": a["null"]}}
    return out


def check(case):
    from flamapy.metamodels.fm_metamodel.transformations import AFMReader, AFMWriter
    model = case["model"]
    fm0 = build.build(model)
    snap0 = build.snapshot(fm0)
    with Scratch() as sc:
        out, texts, models, obss = rt.run_cycles(
            fm0, lambda p, m: AFMWriter(p, m).transform(), lambda p: AFMReader(p).transform(),
            sc, "afm", case["cycles"], "C06")
    if build.snapshot(fm0) != snap0:
        out.append(("C06.writer-modified-model", ""))
    if not models:
        return out
    obs = obss[0]
    out += rt.wellformed(obs, "C06")
    out += rt.same_tree(model, obs, "C06")
    by = {f["name"]: f for f in obs["features"]}
    for f, _ in build.iter_feats(model["root"]):
        o = by.get(f["name"])
        if o is None:
            continue
        want = spec_attrs(f)
        got = {a["name"]: {"ranges": (a["domain"] or {}).get("ranges", []), "elements": (a["domain"] or {}).get("elements", []),
                           "default": a["default"], "null": a["null"]} for a in o["attrs"]}
        if len(o["attrs"]) != len(got):
            out.append(("C06.attr-duplicate", f["name"]))
        if set(want) != set(got):
            out.append(("C06.attr-names", f"{f['name']}: expected {sorted(want)}, got {sorted(got)}"))
            continue
        for k in want:
            for field in ("ranges", "elements", "default", "null"):
                if want[k][field] != got[k][field]:
                    out.append((f"C06.attr-{field}", f"{f['name']}.{k}: expected {want[k][field]!r:.100}, got {got[k][field]!r:.100}"))
    got = rt.constraint_exprs(models[0], "C06", out)
    if None not in got:
        bad = logic.match_lists([c["ast"] for c in model["ctcs"]], got)
        if bad:
            out.append(("C06.ctcs-not-equivalent", bad[:300]))
    return out


@st.composite
def cases(draw, max_feats=12):
    m = draw(S.model_specs(S.AFM, 1, max_feats))
    if draw(st.integers(0, 7)) == 0:
        _concatenation_twins(draw, m)
    return {"model": m, "cycles": draw(st.integers(3, 4))}


def _concatenation_twins(draw, m):
    """Two attributes whose 'feature name + attribute name' spell the same text (Pay.palfee / Paypal.fee): keys built
    by gluing the two names together cannot tell them apart."""
    feats = [f for f, _ in build.iter_feats(m["root"])]
    taken = {f["name"] for f in feats}
    host = draw(st.sampled_from(feats))
    suffix = draw(st.sampled_from(["pal", "x", "a1", "fee", "q"]))
    tail = draw(st.sampled_from(["fee", "cost", "w", "a"]))
    new_name = host["name"] + suffix
    if new_name in taken or any(a["name"] in (suffix + tail, tail) for a in host["attrs"]):
        return
    twin = build.feat(new_name)
    val = lambda: {"name": None, "ranges": [[0, draw(st.integers(1, 9))]], "elements": None, "default": "1", "null": "0"}   # noqa: E731
    a1, a2 = val(), val()
    a1["name"], a2["name"] = suffix + tail, tail
    host["attrs"].append(a1)
    twin["attrs"].append(a2)
    parent = draw(st.sampled_from(feats))
    parent["rels"].append(build.rel(0, 1, [twin]))
    if draw(st.booleans()):          # the longer name first in the document
        parent["rels"].insert(0, parent["rels"].pop())


def _precedence_matters(e):
    ops = logic.ops_of(e)
    if len({o for o in ops if o != "NOT"}) >= 2:
        return True

    def rec(x):
        if x[0] in logic.LEAF:
            return False
        if x[0] == "NOT" and x[1][0] not in logic.LEAF and x[1][0] != "NOT":
            return True
        return any(rec(s) for s in x[1:])
    return rec(e)


def nontrivial(case):
    m = case["model"]
    if any(_precedence_matters(c["ast"]) for c in m["ctcs"]):
        return True
    return any(f["attrs"] or len(f["rels"]) >= 2 for f, _ in build.iter_feats(m["root"]))


def classes(case):
    m = case["model"]
    out = set()
    for f, _ in build.iter_feats(m["root"]):
        for a in f["attrs"]:
            out.add("attr:ranges" if a.get("ranges") else "attr:elements")
        if len(f["rels"]) >= 2:
            out.add("multi-relations-parent")
    for r, _ in build.iter_rels(m["root"]):
        out.add("rel:" + rel_class(r["min"], r["max"], len(r["children"])))
    for c in m["ctcs"]:
        if _precedence_matters(c["ast"]):
            out.add("precedence-matters")
        for o in set(logic.ops_of(c["ast"])):
            out.add("op:" + o)
    return out


@st.composite
def big_cases(draw):
    """Models of several hundred features (files of tens of kilobytes): block-wise or incremental readers/writers."""
    return {"model": draw(S.model_specs(S.AFM, 200, 400, many_ctcs=draw(st.booleans()))), "cycles": 3}


SUBS = [
    Sub("big-models", check, gen=lambda tier: big_cases(), nontrivial=lambda case: True, classes=lambda case: {"big-model"},
        n={"quick": 2, "thorough": 30}, shards={"quick": 8, "thorough": 16}),
    Sub("roundtrip", check, gen=lambda tier: cases(), nontrivial=nontrivial, classes=classes,
        n={"quick": 150, "thorough": 1500},
        essential=["attr:ranges", "attr:elements", "multi-relations-parent", "rel:cardinal", "precedence-matters",
                   "op:EQUIVALENCE", "op:IMPLIES", "op:NOT"]),
    Sub("all-trees-depth2", check, enum=enum_trees, nontrivial=nontrivial, classes=classes,
        exhaustive={"quick": False, "thorough": True}),
]

MANIFEST = {
    "technique": "property-based round-trip testing + exhaustive enumeration of all AFM constraint trees of depth<=2 over 3 names; oracle = generating spec (names, tree, attribute domains/default/null, one-to-one truth-table equivalence) plus byte/observation idempotence",
    "level_text": "Generated AFM-fragment models are written and read 3-4 times; every constraint tree of depth <= 2 over {A,B,C} (7 operators) goes through the cycle in thorough (a seeded tenth in quick). Cycle 1 is compared with the spec, later cycles with the previous one. Also: models of 200-400 features, wide groups with multi-digit bounds, attribute strings with arbitrary characters, concatenation-twin attribute names, and the same-path decoys / relative paths / other file system of C01. A sample of every sub-check additionally runs in a `python -OO` child with the root logger at DEBUG.",
    "level_note": "Trusted: vf/build.py, vf/roundtrip.py, vf/logic.py, Hypothesis; the AFM lexical facts in DESIGN Appendix A for the name/value generators.",
}
