"""C18 - constraint classification and splitting are semantically sound."""
import itertools

from hypothesis import strategies as st

from vf import build, logic, strategies as S
from vf.oracle import Raised, lib
from vf.runner import Sub

ID = "C18"
RULE = ("Cases are constraint expression trees. Exhaustive part: every tree over NOT + the 7 binary logical "
        "operators of depth <= 2 on names {A,B,C} and again on the case twins {A,a,B} (2 x 33 399 trees; quick runs all depth<=1 trees and a seeded "
        "slice of depth-2 trees); every NOT/AND/OR tree of depth <= 3 on {A,B} (182 712 trees; quick: a seeded 1/24 slice); all 16 384 trees nesting XOR/EQUIVALENCE in each other under optional negations (quick: 1/8) plus a slice of all NOT/XOR/EQUIVALENCE trees of depth <= 3. Random part: trees to depth 5 on <= 5 names, the seven documented simple forms "
        "for all ordered name pairs (also with odd names), and arithmetic/aggregate trees for the kind predicates. "
        "Non-trivial: tree with an XOR/EQUIVALENCE root, a NOT over a binary operator, or any arithmetic/aggregate "
        "tree; distinct = distinct canonical JSON.")
ASSUMPTIONS = [
    "logical equivalence is decided by complete truth tables over the atoms of both sides (vf/logic.py)",
    "which complex constraints are pseudo- and which strict-complex is the library's procedure to decide; the check only refutes 'strict' when each of 16 textbook clause transformations yields simple constraints only (and 'pseudo' through the soundness of the split)",
    "names inside aggregate calls (sum(attr, F)) are not demanded from get_features (only 'reported names are "
    "written in the tree' is checked there); for every other tree the reported set must equal the written names",
]

NAMES3 = ["A", "B", "C"]
BIN = list(logic.BINARY_LOGICAL)


def _trees(depth, names):
    if depth == 0:
        return [["T", n] for n in names]
    smaller = _trees(depth - 1, names)       # all trees of depth <= depth-1
    out = list(smaller)
    seen = {logic.canon(e) for e in out}
    new = []
    for e in smaller:
        new.append(["NOT", e])
    for op in BIN:
        for a, b in itertools.product(smaller, smaller):
            new.append([op, a, b])
    for e in new:
        k = logic.canon(e)
        if k not in seen:
            seen.add(k)
            out.append(e)
    return out


def _trees_over(depth, names, binops):
    """All trees of depth <= depth over NOT + binops (no de-duplication needed: construction is injective)."""
    level = [["T", n] for n in names]
    for _ in range(depth):
        nxt = [["T", n] for n in names] + [["NOT", e] for e in level]
        for op in binops:
            nxt.extend([op, a, b] for a in level for b in level)
        level = nxt
    return level


def enum_notxoreq(tier, seed):
    """XOR / EQUIVALENCE nested in each other under optional negations: every tree [!] X([!] X(l, l), [!] X(l, l)) with
    X in {XOR, EQUIVALENCE} and l a possibly negated name of {A,B} (16 384 trees, three such operators each - the
    expansion of these operators inside each other and below NOT), plus a slice of the complete family of
    NOT/XOR/EQUIVALENCE trees of depth <= 3 over {A,B} (182 712 trees, up to seven such operators: the library's
    clause conversion is exponential there, hence 1/16 in thorough and 1/384 in quick)."""
    ops = ("XOR", "EQUIVALENCE")
    lits = [["T", "A"], ["NOT", ["T", "A"]], ["T", "B"], ["NOT", ["T", "B"]]]
    inner = [[op, a, b] for op in ops for a in lits for b in lits]
    inner = inner + [["NOT", x] for x in inner]
    nested = [[op, a, b] for op in ops for a in inner for b in inner]
    nested = nested + [["NOT", x] for x in nested]
    full = _trees_over(3, ["A", "B"], list(ops))
    s_ = int(seed)
    if tier == "thorough":
        trees = nested + full[s_ % 16::16]
    else:
        trees = nested[s_ % 8::8] + full[(s_ + 7) % 384::384]
    return [{"ast": e} for e in trees]


def enum_chains(tier, seed):
    """'Caterpillar' constraints: a spine of up to five NOT / OR / AND nodes, each binary node with one literal operand
    (on either side) - alone, and as the right-hand side of `A => ...` and of `(A|B) => ...`.  3 x 3 905 trees; the deep
    NOT-OR-NOT-OR / AND-NOT-OR alternations that negation propagation and clause splitting have to get right at every
    level.  Quick: a seeded 1/8 slice."""
    lits = ["B", "C", "D", "E", "F", "G"]
    kinds = ("NOT", "OR-l", "OR-r", "AND-l", "AND-r")
    out = []

    def build_chain(ks):
        e = ["T", lits[len(ks) % len(lits)]]
        for i, k in reversed(list(enumerate(ks))):
            lit = ["T", lits[i % len(lits)]]
            if k == "NOT":
                e = ["NOT", e]
            else:
                op, side = k.split("-")
                e = [op, lit, e] if side == "l" else [op, e, lit]
        return e
    for d in range(1, 6):
        for ks in itertools.product(kinds, repeat=d):
            c = build_chain(ks)
            out.append({"ast": c})
            out.append({"ast": ["IMPLIES", ["T", "A"], c]})
            out.append({"ast": ["IMPLIES", ["OR", ["T", "A"], ["T", "H"]], c]})
    if tier != "thorough":
        out = out[int(seed) % 8::8]
    return out


def enum_bipartite(tier, seed):
    """(A1|..|An) => (B1&..&Bm) and (A1|..|An) => !(B1|..|Bm): n*m requires / excludes clauses, i.e. pseudo-complex at
    any size, with polynomial clause conversion.  (n, m) are chosen so that n*m lies just below and just above the
    thresholds an implementation may have (powers of two and round decimal numbers up to 2 048; thorough: 4 096)."""
    import math

    def chain(op, xs):
        e = xs[0]
        for x in xs[1:]:
            e = [op, e, x]
        return e
    limits = [16, 32, 64, 100, 128, 200, 250, 256, 500, 512, 1000, 1024, 2000, 2048] + ([3000, 4096] if tier == "thorough" else [])
    pairs = set()
    for t in limits:
        r = max(1, int(math.isqrt(t)))
        for n in (r, 2, max(1, r // 2)):
            pairs.add((n, t // n))                  # n*m <= t
            pairs.add((n, t // n + 1))              # n*m > t
            pairs.add((t // n + 1, n))
    out = []
    for n, m in sorted(pairs):
        if n * m > (4200 if tier == "thorough" else 2150) or max(n, m) > 150:
            continue          # chains of many hundred operands exceed the interpreter's recursion limit in any recursive walk
        a = [["T", f"A{i}"] for i in range(n)]
        b = [["T", f"B{i}"] for i in range(m)]
        out.append({"ast": ["IMPLIES", chain("OR", a), chain("AND", b)], "expect": "pseudo", "shape": [n, m]})
        out.append({"ast": ["IMPLIES", chain("OR", a), ["NOT", chain("OR", b)]], "expect": "pseudo", "shape": [n, m]})
    if tier != "thorough":
        out = out[int(seed) % 2::2]
    return out


def enum_andornot(tier, seed):
    """Every NOT/AND/OR tree of depth <= 3 over {A,B} (182 712 trees): the negation-propagation / CNF part of
    split_constraint and the pseudo-/strict-complex decision, where depth 2 is too shallow (OR over OR over AND,
    NOT over OR over AND ...).  Quick: a seeded 1/24 slice."""
    trees = _trees_over(3, ["A", "B"], ["AND", "OR"])
    if tier != "thorough":
        trees = trees[int(seed) % 24::24]
    return [{"ast": e} for e in trees]


_CACHE = {}


def all_trees(depth):
    if depth not in _CACHE:
        _CACHE[depth] = _trees(depth, NAMES3)
    return _CACHE[depth]


def _rename(e, mapping):
    if e[0] == "T":
        return ["T", mapping[e[1]]]
    return [e[0]] + [_rename(x, mapping) for x in e[1:]]


CASE_TWINS = {"A": "A", "B": "a", "C": "B"}      # second alphabet {A, a, B}: names differing only in letter case
SIGN_NAMES = {"A": "-A", "B": "A", "C": "+B"}    # third alphabet: names that start like a negated / signed literal


def enum_exhaustive(tier, seed):
    d1 = all_trees(1)
    d2 = all_trees(2)
    if tier == "thorough":
        return ([{"ast": e} for e in d2] + [{"ast": _rename(e, CASE_TWINS)} for e in d2]
                + [{"ast": _rename(e, SIGN_NAMES)} for e in d2[::3]])
    rest = d2[len(d1):]
    stride = 8
    off = int(seed) % stride
    twins = [{"ast": _rename(e, CASE_TWINS)} for e in d1] + [{"ast": _rename(e, CASE_TWINS)} for e in rest[(off + 3) % stride::stride]]
    signs = [{"ast": _rename(e, SIGN_NAMES)} for e in d1] + [{"ast": _rename(e, SIGN_NAMES)} for e in rest[(off + 5) % stride::stride * 3]]
    return [{"ast": e} for e in d1] + [{"ast": e} for e in rest[off::stride]] + twins + signs


def simple_forms(a, b):
    A, B = ["T", a], ["T", b]
    return {
        "requires": [["REQUIRES", A, B], ["IMPLIES", A, B], ["OR", ["NOT", A], B], ["OR", B, ["NOT", A]]],
        "excludes": [["EXCLUDES", A, B], ["IMPLIES", A, ["NOT", B]], ["OR", ["NOT", A], ["NOT", B]]],
    }


@st.composite
def random_cases(draw):
    kind = draw(st.integers(0, 9))
    if kind <= 1:
        a, b = draw(st.lists(S.unicode_names_nodot(), min_size=2, max_size=2))
        which = draw(st.sampled_from(["requires", "excludes"]))
        forms = simple_forms(a, b)[which]
        return {"ast": draw(st.sampled_from(forms)), "form": which, "pair": [a, b]}
    if kind <= 3:
        from vf.props.c03 import _any_ctc
        names = draw(st.lists(S.ident_names(), min_size=1, max_size=4, unique=True))
        e = _any_ctc(draw, names, None)
        return {"ast": e}
    names = draw(st.lists(st.one_of(S.ident_names(), S.unicode_names_nodot()), min_size=1, max_size=5, unique=True))
    if draw(st.integers(0, 2)) == 0:
        # names differing only in letter case / blanks (constraint equality in the library is case-insensitive)
        v = draw(st.sampled_from(S.VARIANTS_TEXT))(draw(st.sampled_from(names)))
        if v not in names:
            names.append(v)
    depth = draw(st.integers(2, 5))
    return {"ast": S.cap_clause_cost(_cap_xor(draw(S.expr_of_depth(names, logic.LOGICAL, depth)), [3 if depth <= 3 else 2 if depth == 4 else 1]), 1500)}


# ------------------------------------------------------------------ oracle
def check(case):
    from flamapy.metamodels.fm_metamodel.models.feature_model import (
        left_right_features_from_simple_constraint, split_constraint)
    out = []
    e = case["ast"]
    c = build.build_constraint({"name": "K", "ast": e})
    before = build.obs_node(c.ast.root)
    logical = logic.is_logical(e)

    def call(name, fn, *a):
        got = lib(fn, *a)
        if isinstance(got, Raised):
            out.append((f"C18.{name}.raised:{got.label}", got.text))
            return None
        return got

    res = {}
    for q in ("is_logical_constraint", "is_arithmetic_constraint", "is_aggregation_constraint",
              "is_single_feature_constraint", "is_simple_constraint", "is_complex_constraint",
              "is_requires_constraint", "is_excludes_constraint", "is_pseudocomplex_constraint",
              "is_strictcomplex_constraint"):
        res[q] = call(q, getattr(c, q))
        if res[q] is not None and not isinstance(res[q], bool):
            out.append((f"C18.{q}.not-bool", repr(res[q])))
    feats = call("get_features", c.get_features)
    splits = call("split_constraint", split_constraint, c) if logical else None
    call("get_operators", c.ast.get_operators)
    call("get_operands", c.ast.get_operands)

    # kinds
    for q, want in (("is_logical_constraint", logical), ("is_arithmetic_constraint", logic.is_arithmetic(e)),
                    ("is_aggregation_constraint", logic.is_aggregation(e))):
        if res[q] is not None and res[q] is not want:
            out.append((f"C18.{q}", f"expected {want}"))
    single = e[0] == "T" or (e[0] == "NOT" and e[1][0] == "T")
    if e[0] in ("T", "NOT") or logical:
        if res["is_single_feature_constraint"] is not None and res["is_single_feature_constraint"] is not single:
            out.append(("C18.is_single_feature_constraint", f"expected {single}"))

    # reported features
    if feats is not None:
        want = logic.refs(e)
        if len(feats) != len(set(feats)):
            out.append(("C18.get_features.duplicates", repr(feats)))
        if logic.is_aggregation(e):
            if not set(feats) <= want:
                out.append(("C18.get_features", f"reported {sorted(feats)} not written in the tree"))
        elif set(feats) != want:
            out.append(("C18.get_features", f"expected {sorted(want)}, got {sorted(feats)}"))

    # requires / excludes are semantically what they claim
    req, exc = res["is_requires_constraint"], res["is_excludes_constraint"]
    if req or exc:
        lr = call("left_right", left_right_features_from_simple_constraint, c)
        if lr is not None:
            l, r = lr
            if not (isinstance(l, str) and isinstance(r, str)):
                out.append(("C18.left_right.not-names", repr(lr)))
            else:
                if req and not _equiv(e, ["IMPLIES", ["T", l], ["T", r]]):
                    out.append(("C18.requires-not-equivalent", f"reported requires with ({l!r},{r!r})"))
                if exc and not _equiv(e, ["NOT", ["AND", ["T", l], ["T", r]]]):
                    out.append(("C18.excludes-not-equivalent", f"reported excludes with ({l!r},{r!r})"))
    if req and exc and not _equiv(["IMPLIES", ["T", "p"], ["T", "q"]], ["EXCLUDES", ["T", "p"], ["T", "q"]]):
        pass  # both may hold only for degenerate equal trees; the equivalences above decide
    if case.get("form"):
        q = "is_requires_constraint" if case["form"] == "requires" else "is_excludes_constraint"
        if res[q] is False:
            out.append((f"C18.documented-form-not-{case['form']}", logic.canon(e)))
        lr = lib(left_right_features_from_simple_constraint, c)
        if not isinstance(lr, Raised) and list(lr) != case["pair"] and case["form"] == "requires":
            out.append(("C18.left_right.requires-pair", f"expected {case['pair']}, got {lr!r}"))
        if not isinstance(lr, Raised) and sorted(lr) != sorted(case["pair"]) and case["form"] == "excludes":
            out.append(("C18.left_right.excludes-pair", f"expected {case['pair']}, got {lr!r}"))

    # consistency
    sim, com, pse, stri = (res["is_simple_constraint"], res["is_complex_constraint"],
                           res["is_pseudocomplex_constraint"], res["is_strictcomplex_constraint"])
    if None not in (sim, req, exc) and sim is not (req or exc):
        out.append(("C18.simple!=requires-or-excludes", f"{sim} vs {req},{exc}"))
    if None not in (com, sim, res["is_logical_constraint"]) and com is not (logical and not sim):
        out.append(("C18.complex!=logical-and-not-simple", f"complex={com} logical={logical} simple={sim}"))
    if pse and com is False:
        out.append(("C18.pseudo-not-complex", ""))
    if stri and com is False:
        out.append(("C18.strict-not-complex", ""))
    if com and None not in (pse, stri) and (pse == stri):
        out.append(("C18.complex-not-exactly-one-of-pseudo-strict", f"pseudo={pse} strict={stri}"))

    # "strict-complex = cannot be transformed to a set of simple constraints": refuted when every textbook
    # transformation into clauses yields simple constraints only (one-way backstop, see logic.unanimously_pseudo)
    if logical and stri is True and com and logic.unanimously_pseudo(e) is True:
        out.append(("C18.strict-complex-but-every-standard-transformation-is-simple", logic.canon(e)[:300]))

    # splitting
    if splits is not None:
        try:
            parts = [build.node_to_expr(s.ast.root) for s in splits]
        except ValueError as err:
            out.append(("C18.split.malformed-tree", str(err)))
            parts = None
        if parts is not None and com:
            # pseudo-complex = 'can be transformed to a set of simple constraints' by the library's own transformation:
            # the two reports and the split must tell one story
            simple_parts = [lib(s_.is_simple_constraint) for s_ in splits]
            if not any(isinstance(x, Raised) for x in simple_parts):
                if pse is True and not all(simple_parts):
                    out.append(("C18.pseudo-complex-but-split-has-a-non-simple-part", f"{[logic.canon(p_) for p_ in parts][:4]}"))
                if stri is True and all(simple_parts) and parts:
                    out.append(("C18.strict-complex-but-split-is-all-simple", f"{[logic.canon(p_) for p_ in parts][:4]}"))
        if parts is not None:
            if not parts:
                out.append(("C18.split.empty", ""))
            elif not _equiv_conj(parts, e):
                out.append(("C18.split-not-equivalent", f"{[logic.canon(p) for p in parts][:6]}"))
    after = build.obs_node(c.ast.root)
    if after != before:
        out.append(("C18.constraint-modified", ""))
    # the same Constraint object with its formula replaced through the public `ast` property: every report must be
    # about the formula it has now (compared with a fresh Constraint of that formula)
    e2 = _variant(e)
    from flamapy.core.models.ast import AST
    if not isinstance(lib(setattr, c, "ast", AST(build.build_node(e2))), Raised):
        fresh = build.build_constraint({"name": "K", "ast": e2})
        for q in QUERIES + ("get_features",):
            a, b = lib(getattr(c, q)), lib(getattr(fresh, q))
            if isinstance(a, Raised) or isinstance(b, Raised):
                if isinstance(a, Raised) != isinstance(b, Raised):
                    out.append((f"C18.after-formula-replaced.{q}", "raises on one of the two objects only"))
                continue
            if (sorted(a) if isinstance(a, list) else a) != (sorted(b) if isinstance(b, list) else b):
                out.append((f"C18.after-formula-replaced.{q}", f"edited object {a!r:.60}, fresh constraint {b!r:.60} for {logic.canon(e2)[:120]}"))
    return out


QUERIES = ("is_logical_constraint", "is_arithmetic_constraint", "is_aggregation_constraint",
           "is_single_feature_constraint", "is_simple_constraint", "is_complex_constraint",
           "is_requires_constraint", "is_excludes_constraint", "is_pseudocomplex_constraint",
           "is_strictcomplex_constraint")


def _variant(e):
    """A different formula derived from e (pure function): binary logical root -> operands swapped under the next
    logical operator; otherwise e below a NOT (logical e) or e's first operand."""
    if e[0] in logic.BINARY_LOGICAL:
        ops = list(logic.BINARY_LOGICAL)
        return [ops[(ops.index(e[0]) + 3) % len(ops)], e[2], e[1]]
    if logic.is_logical(e):
        return ["IMPLIES", e, ["T", "Zz"]] if e[0] == "NOT" else ["NOT", e]
    return e[1] if e[0] not in logic.LEAF else ["NOT", e]


def _equiv_conj(parts, e):
    try:
        return logic.equiv_conj(parts, e)
    except (KeyError, ValueError):
        return False


def _cap_xor(e, budget):
    """Keep at most budget[0] XOR/EQUIVALENCE nodes (naive CNF conversion is exponential in them);
    the surplus becomes IMPLIES.  Constructive bound, not a filter."""
    if e[0] in logic.LEAF:
        return e
    op = e[0]
    if op in ("XOR", "EQUIVALENCE"):
        if budget[0] <= 0:
            op = "IMPLIES"
        else:
            budget[0] -= 1
    return [op] + [_cap_xor(s, budget) for s in e[1:]]


def _equiv(e1, e2):
    try:
        return logic.equiv(e1, e2)
    except (KeyError, ValueError):
        return False


def nontrivial(case):
    e = case["ast"]
    if not logic.is_logical(e):
        return True
    if e[0] in ("XOR", "EQUIVALENCE"):
        return True

    def has_not_over_binary(x):
        if x[0] in logic.LEAF:
            return False
        if x[0] == "NOT" and x[1][0] not in logic.LEAF and x[1][0] != "NOT":
            return True
        return any(has_not_over_binary(s) for s in x[1:])
    return has_not_over_binary(e)


def classes(case):
    e = case["ast"]
    out = {"root:" + e[0]}
    if case.get("form"):
        out.add("documented-form")
    if not logic.is_logical(e):
        out.add("non-logical")
    out.add(f"depth:{min(build.expr_depth(e), 6)}")
    return out


SUBS = [
    Sub("exhaustive-depth2", check, enum=enum_exhaustive, nontrivial=nontrivial, classes=classes,
        exhaustive={"quick": False, "thorough": True}),
    Sub("exhaustive-and-or-not-depth3", check, enum=enum_andornot, nontrivial=nontrivial, classes=classes,
        exhaustive={"quick": False, "thorough": True}),
    Sub("nested-xor-equivalence", check, enum=enum_notxoreq, nontrivial=nontrivial, classes=classes, exhaustive=False),
    Sub("chains", check, enum=enum_chains, nontrivial=nontrivial, classes=classes,
        exhaustive={"quick": False, "thorough": True}),
    Sub("bipartite-constraints", check, enum=enum_bipartite, nontrivial=lambda case: True,
        classes=lambda case: {"bipartite", "clauses>1024" if case["shape"][0] * case["shape"][1] > 1024 else "clauses<=1024"}),
    Sub("random", check, gen=lambda tier: random_cases(), nontrivial=nontrivial, classes=classes,
        n={"quick": 1000, "thorough": 8000}, essential=["documented-form", "non-logical"]),
]

MANIFEST = {
    "technique": "exhaustive enumeration of all constraint trees of depth<=2 over 3 names and of all NOT/AND/OR trees of depth<=3 over 2 names, the family of nested XOR/EQUIVALENCE trees + Hypothesis random deeper/arithmetic trees; oracle = complete truth tables and a reference kind classifier",
    "level_text": "Every logical tree of depth <= 2 over {A,B,C} is decided exhaustively (thorough; quick takes all depth<=1 trees and a seeded 1/8 slice of depth 2), every NOT/AND/OR tree of depth <= 3 over {A,B} likewise (thorough; quick a 1/24 slice), deeper and arithmetic/aggregate trees by random search. Equivalences are exact (truth tables). Absence of violations is established only inside the enumerated domain. Also: all 16 384 trees nesting XOR/EQUIVALENCE in each other, bipartite constraints of up to 2 048 (4 096) clauses around round thresholds, the same Constraint object re-queried after its formula was replaced, pseudo/strict reports compared with the split and with a 16-member family of textbook clause transformations (one-way). A sample of every sub-check additionally runs in a `python -OO` child with the root logger at DEBUG.",
    "level_note": "Trusted: vf/logic.py truth-table semantics (REQUIRES=IMPLIES, EXCLUDES=not both), the reference kind classifier, Hypothesis. Names inside aggregate calls are not demanded from get_features.",
}
