"""C15 - atomic sets partition the features into always-co-selected groups."""
from vf import build, semantics
from vf.oracle import Raised, lib
from vf.props import _bool
from vf.runner import Sub

ID = "C15"
RULE = ("Same domain as C13. Non-trivial: model with >=1 mandatory chain of length >=2 and >=1 non-mandatory child; "
        "distinct = distinct canonical JSON.")
ASSUMPTIONS = ["co-selection is decided over all configurations from vf/semantics.py"]


def check(case):
    from flamapy.metamodels.fm_metamodel.operations import FMAtomicSets
    out = []
    fm = build.build(case)
    got = lib(lambda: FMAtomicSets().execute(fm).get_result())
    if isinstance(got, Raised):
        return [(f"C15.raised:{got.label}", got.text)]
    again = lib(lambda: (_bool.long_lived(FMAtomicSets).execute(fm), _bool.long_lived(FMAtomicSets).execute(fm).get_result())[1])
    if isinstance(again, Raised) or sorted(sorted(f.name for f in s) for s in again) != sorted(sorted(f.name for f in s) for s in got):
        out.append(("C15.reused-object-differs", "a long-lived FMAtomicSets object returns something else than a fresh one"))
    sets = [[getattr(f, "name", repr(f)) for f in s] for s in got]
    flat = [n for s in sets for n in s]
    names = build.names(case)
    if any(len(s) == 0 for s in sets):
        out.append(("C15.empty-set", ""))
    if sorted(flat) != sorted(names):
        out.append(("C15.not-a-partition", f"sets {sets} vs features {names}"))
    where = {}
    for i, s in enumerate(sets):
        for n in s:
            where.setdefault(n, i)
    cfgs = semantics.configs(case)
    for s in sets:
        for a in s[1:]:
            if any((s[0] in c) != (a in c) for c in cfgs):
                out.append(("C15.not-co-selected", f"{s[0]!r} and {a!r} share a set"))
                break
    for r, o in build.iter_rels(case["root"]):
        if len(r["children"]) == 1 and (r["min"], r["max"]) == (1, 1):
            c = r["children"][0]["name"]
            if where.get(c) != where.get(o["name"]):
                out.append(("C15.mandatory-child-split-from-parent", f"{c!r} / {o['name']!r}"))
    return out


def nontrivial(case):
    chain = nonmand = False
    for r, o in build.iter_rels(case["root"]):
        mand = len(r["children"]) == 1 and (r["min"], r["max"]) == (1, 1)
        if not mand:
            nonmand = True
        elif any(len(rr["children"]) == 1 and (rr["min"], rr["max"]) == (1, 1) for rr in r["children"][0]["rels"]):
            chain = True
    return chain and nonmand


SUBS = [
    Sub("shapes", check, enum=_bool.enum_shapes, nontrivial=nontrivial, classes=_bool.structure_classes,
        exhaustive=True, min_nontrivial=0.005),
    Sub("random-no-ctcs", check, gen=lambda tier: _bool.random_models(False), nontrivial=nontrivial,
        classes=_bool.structure_classes, n={"quick": 800, "thorough": 6000}),
    Sub("random-ctcs", check, gen=lambda tier: _bool.random_models(True, 10), nontrivial=nontrivial,
        classes=_bool.structure_classes, n={"quick": 200, "thorough": 2500}, essential=["with-ctcs"]),
]

MANIFEST = {
    "technique": "exhaustive enumeration of small tree shapes + Hypothesis random models; oracle = partition predicate and co-selection over all configurations from an independent brute-force enumerator",
    "level_text": "Validity predicate over the output (partition, co-selection in every configuration, mandatory chains kept together); exact for tree shapes up to 5/7 features, sampling beyond.",
    "level_note": "Trusted: vf/semantics.py, vf/shapes.py.",
}
