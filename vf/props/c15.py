"""C15 - atomic sets partition the features into always-co-selected groups."""
from vf import build, semantics, strategies as S
from vf.oracle import Raised, lib
from vf.props import _bool
from vf.runner import Sub

ID = "C15"
RULE = ("Same domain as C13. Non-trivial: model with >=1 mandatory chain of length >=2 and >=1 non-mandatory child; "
        "distinct = distinct canonical JSON.")
ASSUMPTIONS = ["co-selection is decided over all configurations from vf/semantics.py"]


def check(case):
    return _bool.run_with_edits(case, check_fm, "C15")


def check_large(case):
    """Models beyond brute force: partition, mandatory children with their parents, and 'same set => always co-selected'
    decided by the exact classes of a constraint-free tree (_bool.forced_links; cross-checked in check_fm)."""
    from flamapy.metamodels.fm_metamodel.operations import FMAtomicSets
    out = []
    fm = build.build(case)
    got = lib(lambda: FMAtomicSets().execute(fm).get_result())
    if isinstance(got, Raised):
        return [(f"C15.raised:{got.label}", got.text)]
    sets = [[getattr(f, "name", repr(f)) for f in s] for s in got]
    flat = [n for s in sets for n in s]
    if any(len(s) == 0 for s in sets):
        out.append(("C15.empty-set", ""))
    if sorted(flat) != sorted(build.names(case)):
        out.append(("C15.not-a-partition", f"{len(flat)} members for {len(build.names(case))} features"))
    _, comp = _bool.forced_links(case)
    where = {}
    for i, s in enumerate(sets):
        for n in s:
            where.setdefault(n, i)
        if len({comp.get(n) for n in s}) > 1:
            out.append(("C15.not-co-selected", f"a set mixes features that are not always co-selected: {s[:6]}"))
    for r, o in build.iter_rels(case["root"]):
        if len(r["children"]) == 1 and (r["min"], r["max"]) == (1, 1):
            c = r["children"][0]["name"]
            if where.get(c) != where.get(o["name"]):
                out.append(("C15.mandatory-child-split-from-parent", f"{c!r} / {o['name']!r}"))
    return out


def check_fm(fm, case, out):
    from flamapy.metamodels.fm_metamodel.operations import FMAtomicSets
    got = lib(lambda: FMAtomicSets().execute(fm).get_result())
    if isinstance(got, Raised):
        out.append((f"C15.raised:{got.label}", got.text))
        return out
    again = lib(lambda: (_bool.long_lived(FMAtomicSets).execute(fm), _bool.long_lived(FMAtomicSets).execute(fm).get_result())[1])
    if isinstance(again, Raised) or sorted(sorted(f.name for f in s) for s in again) != sorted(sorted(f.name for f in s) for s in got):
        out.append(("C15.reused-object-differs", "a long-lived FMAtomicSets object returns something else than a fresh one"))
    sets = [[getattr(f, "name", repr(f)) for f in s] for s in got]
    flat = [n for s in sets for n in s]
    names = build.names(case)
    if any(len(s) == 0 for s in sets):
        out.append(("C15.empty-set", ""))
    if sorted(flat) != sorted(names):
        out.append(("C15.not-a-partition", f"sets {sets} vs features {names}"))
    where = {}
    for i, s in enumerate(sets):
        for n in s:
            where.setdefault(n, i)
    cfgs = semantics.configs(case)
    if not case["ctcs"] and all(r["max"] == -1 or r["max"] >= 1 for r, _ in build.iter_rels(case["root"])) \
            and all(r["min"] <= len(r["children"]) for r, _ in build.iter_rels(case["root"])):
        comp = _bool.forced_links(case)[1]
        nm = build.names(case)
        for a in nm:
            for b in nm:
                if (comp[a] == comp[b]) != all((a in c) == (b in c) for c in cfgs):
                    raise AssertionError("harness: forced_links classes disagree with the brute-force enumerator")
    for s in sets:
        for a in s[1:]:
            if any((s[0] in c) != (a in c) for c in cfgs):
                out.append(("C15.not-co-selected", f"{s[0]!r} and {a!r} share a set"))
                break
    for r, o in build.iter_rels(case["root"]):
        if len(r["children"]) == 1 and (r["min"], r["max"]) == (1, 1):
            c = r["children"][0]["name"]
            if where.get(c) != where.get(o["name"]):
                out.append(("C15.mandatory-child-split-from-parent", f"{c!r} / {o['name']!r}"))
    return out


def nontrivial(case):
    case = case["model"] if "edits" in case else case
    chain = nonmand = False
    for r, o in build.iter_rels(case["root"]):
        mand = len(r["children"]) == 1 and (r["min"], r["max"]) == (1, 1)
        if not mand:
            nonmand = True
        elif any(len(rr["children"]) == 1 and (rr["min"], rr["max"]) == (1, 1) for rr in r["children"][0]["rels"]):
            chain = True
    return chain and nonmand


def classes(case):
    return _bool.edit_classes(case) if "edits" in case else _bool.structure_classes(case)


SUBS = [
    Sub("large-models", check_large, gen=lambda tier: _bool.large_models(), nontrivial=lambda case: True,
        classes=_bool.large_classes, n={"quick": 40, "thorough": 1000}, essential=["group>=257"]),
    Sub("twin-subtrees", check, gen=lambda tier: _bool.twin_subtree_models(), nontrivial=lambda case: True,
        classes=lambda case: {"twin-subtrees"}, n={"quick": 150, "thorough": 2000}),
    Sub("constraint-lists", check, gen=lambda tier: _bool.constraint_list_models(), nontrivial=nontrivial, classes=classes,
        n={"quick": 300, "thorough": 3000}, essential=["with-ctcs"], min_nontrivial=0.0),
    Sub("edit-histories", check, gen=lambda tier: _bool.edit_histories(S.BOOLEAN_ANY, 10, with_ctcs=True),
        nontrivial=lambda case: True, classes=classes, n={"quick": 100, "thorough": 1500}, essential=["edit:move"]),
    Sub("shapes", check, enum=_bool.enum_shapes, nontrivial=nontrivial, classes=_bool.structure_classes,
        exhaustive=True, min_nontrivial=0.005),
    Sub("random-no-ctcs", check, gen=lambda tier: _bool.random_models(False), nontrivial=nontrivial,
        classes=_bool.structure_classes, n={"quick": 800, "thorough": 6000}),
    Sub("random-ctcs", check, gen=lambda tier: _bool.random_models(True, 10), nontrivial=nontrivial,
        classes=_bool.structure_classes, n={"quick": 200, "thorough": 2500}, essential=["with-ctcs"]),
]

MANIFEST = {
    "technique": "exhaustive enumeration of small tree shapes + Hypothesis random models; oracle = partition predicate and co-selection over all configurations from an independent brute-force enumerator",
    "level_text": "Validity predicate over the output (partition, co-selection in every configuration, mandatory chains kept together); exact for tree shapes up to 5/7 features, sampling beyond. Also: models with groups of up to 300 leaves against the exact always-co-selected classes of a constraint-free tree (cross-checked), constraint-list models, in-place edit histories. A sample of every sub-check additionally runs in a `python -OO` child with the root logger at DEBUG.",
    "level_note": "Trusted: vf/semantics.py, vf/shapes.py.",
}
