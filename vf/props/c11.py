"""C11 - the Clafer export denotes exactly the model's configurations."""
from hypothesis import strategies as st

from vf import build, interp, logic, semantics, strategies as S
from vf.oracle import Raised, lib
from vf.props import _bool
from vf.props.c10 import all_selections
from vf.props.c18 import _cap_xor
from vf.runner import Sub

ID = "C11"
RULE = ("Cases are models of the Clafer fragment with 1-9 features (every non-leaf feature has only single mandatory/optional "
        "children or exactly one xor/or/mux/a..b group; attributes with bool/int/float/str values, some names needing quotes; names "
        "= identifiers plus names with spaces/punctuation and operator words; 0-4 constraints over the eight logical operators). The "
        "export is parsed by an independent interpreter of the emitted Clafer subset and evaluated over all 2^n selections. "
        "Non-trivial: a group other than xor/or, an attribute, a constraint with XOR/EQUIVALENCE/EXCLUDES, or a name needing quotes.")
ASSUMPTIONS = ["Clafer semantics of the emitted subset: outside a group a child is mandatory unless '?'; inside xor/or/mux/a..b the group cardinality counts the selected children",
               "one attribute type is declared per attribute name, so attributes with equal names have values of one type in a model",
               "attribute string values contain no double quote or newline"]

LIB_WORDS = {"AND", "OR", "NOT", "XOR", "IMPLIES", "REQUIRES", "EXCLUDES", "EQUIVALENCE"}


def _ctc(draw, nms, feats):
    return _cap_xor(draw(S.expr_of_depth(nms, logic.LOGICAL, draw(st.integers(0, 5)))), [2])


PROFILE = S.Profile(S.clafer_names(), single=("mandatory", "optional"), group=("alternative", "or", "mutex", "card", "card", "star"),
                    layout="one_group", abstract=False, attrs=S._clafer_attrs, ctc_max=4, ctc_expr=_ctc, variants=S.VARIANTS_TEXT,
                    sanitize=S.clafer_sanitize, simple_ops=logic.LOGICAL)


def _unify_attr_types(model):
    """Give equally named attributes values of one kind (the export declares one type per name)."""
    seen = {}
    for f, _ in build.iter_feats(model["root"]):
        for a in f["attrs"]:
            v = a["value"]
            kind = "float" if isinstance(v, dict) else type(v).__name__
            if a["name"] in seen and seen[a["name"]][0] != kind:
                a["value"] = seen[a["name"]][1]
            else:
                seen[a["name"]] = (kind, v)
    return model


def check(case_):
    from flamapy.metamodels.fm_metamodel.transformations import ClaferWriter
    out = []
    case = case_["model"] if "selections" in case_ else case_
    from vf.props.c10 import _poisoned
    lib(lambda: ClaferWriter(None, build.build(_poisoned(case))).transform())     # a failing export first (see C10)
    fm = build.build(case)
    text = lib(lambda: ClaferWriter(None, fm).transform())
    if isinstance(text, Raised):
        return [(f"C11.writer-raised:{text.label}", text.text)]
    try:
        doc = interp.parse_clafer(text)
    except interp.ParseError as err:
        return [("C11.export-not-interpretable", str(err)[:200])]
    nms = build.names(case)
    feats = interp.clafer_features(doc["root"])
    declared = [f.name for f in feats]
    if sorted(declared) != sorted(nms):
        out.append(("C11.features-declared", f"missing {sorted(set(nms) - set(declared))[:5]}, unexpected {sorted(set(declared) - set(nms))[:5]}"))
        return out
    spellings = {f.spelling for f in feats}
    # (ii) identical spelling at declaration and use
    used = set()
    for e in doc["constraints"]:
        interp.clafer_vars(e, used)
    undeclared = sorted(used - spellings)
    if undeclared:
        kind = "C11.operator-word-left-in-constraint" if any(u in LIB_WORDS for u in undeclared) else "C11.constraint-uses-undeclared-name"
        out.append((kind, f"{undeclared[:5]} (declared: {sorted(spellings)[:8]})"))
    attr_spellings = {a for a, _ in doc["attr_decls"]}
    want_attrs = {a["name"] for f, _ in build.iter_feats(case["root"]) for a in f["attrs"]}
    for f in feats:
        for a, _v in f.attrs:
            if a not in attr_spellings:
                out.append(("C11.attribute-spelled-differently", f"{a!r} assigned, declared {sorted(attr_spellings)[:6]}"))
                break
    got_attrs = {(a[1:-1] if a.startswith('"') else a) for a in attr_spellings}
    if got_attrs != want_attrs:
        out.append(("C11.attributes-declared", f"expected {sorted(want_attrs)[:6]}, got {sorted(got_attrs)[:6]}"))
    byname = {f.name: f for f in feats}
    for f, _ in build.iter_feats(case["root"]):
        node = byname[f["name"]]
        if sorted(a[1:-1] if a.startswith('"') else a for a, _ in node.attrs) != sorted(a["name"] for a in f["attrs"]):
            out.append(("C11.attribute-assignments", f"{f['name']!r}"))
        if f["attrs"] and (doc["attr_block"] is None or node.super_ != doc["attr_block"]):
            out.append(("C11.attributed-feature-without-supertype", f"{f['name']!r}"))
    top_names = {f.name for f in feats}
    if doc["attr_block"] is not None and (doc["attr_block"][1:-1] if doc["attr_block"].startswith('"') else doc["attr_block"]) in top_names:
        out.append(("C11.helper-clafer-named-like-a-feature", f"{doc['attr_block']!r}"))
    if doc["instance"] is not None and (doc["instance"][0][1:-1] if doc["instance"][0].startswith('"') else doc["instance"][0]) in top_names:
        out.append(("C11.instance-named-like-a-feature", f"{doc['instance'][0]!r}"))
    if doc["instance"] is None or doc["instance"][1] != doc["root"].spelling:
        out.append(("C11.instance-line", f"{doc['instance']!r} vs root {doc['root'].spelling!r}"))
    if undeclared:
        return out
    # (i) instances == configurations
    if "selections" in case_:
        sel_list = [frozenset(x) for x in case_["selections"]]
        valid = {x for x in sel_list if semantics.valid(case, x)}
    else:
        sel_list = None
        valid = set(semantics.configs(case))
    wrong_accept = wrong_reject = None
    for sel in (sel_list if sel_list is not None else all_selections(nms)):
        a = interp.clafer_accepts(doc, sel)
        if a and sel not in valid and wrong_accept is None:
            wrong_accept = sorted(sel)
        if not a and sel in valid and wrong_reject is None:
            wrong_reject = sorted(sel)
    if wrong_accept is not None:
        out.append(("C11.accepts-invalid-selection", f"{wrong_accept}"))
    if wrong_reject is not None:
        out.append(("C11.rejects-valid-configuration", f"{wrong_reject}"))
    return out


def _needs_quotes(n):
    return not all(ch in S.IDENT_REST for ch in n)


def nontrivial(case):
    if "selections" in case:
        return True
    for r, _ in build.iter_rels(case["root"]):
        n = len(r["children"])
        if n >= 2 and (r["min"], r["max"]) not in ((1, 1), (1, n)):
            return True
    for f, _ in build.iter_feats(case["root"]):
        if f["attrs"] or _needs_quotes(f["name"]):
            return True
    return any({"XOR", "EQUIVALENCE", "EXCLUDES"} & set(logic.ops_of(c["ast"])) for c in case["ctcs"])


def classes(case):
    if "selections" in case:
        r = next(r for r, _ in build.iter_rels(case["model"]["root"]) if len(r["children"]) >= 10)
        return {"wide-group", "bounds:text-order-differs" if str(r["min"]) > str(r["max"]) else "bounds:plain"}
    out = _bool.structure_classes(case)
    for f, _ in build.iter_feats(case["root"]):
        if f["attrs"]:
            out.add("attrs")
        if any(_needs_quotes(a["name"]) for a in f["attrs"]):
            out.add("attr-name-needs-quotes")
        if _needs_quotes(f["name"]):
            out.add("name-needs-quotes")
        if f["name"] in LIB_WORDS or any(w in f["name"].split() for w in LIB_WORDS):
            out.add("operator-word-name")
    for c in case["ctcs"]:
        for o in set(logic.ops_of(c["ast"])):
            out.add("op:" + o)
    return out


SUBS = [
    Sub("wide-groups", check, gen=lambda tier: _bool.wide_group_cases(max_members=24, group_alone=True), nontrivial=nontrivial, classes=classes,
        n={"quick": 30, "thorough": 800}, essential=["bounds:text-order-differs"]),
    Sub("constraint-shapes", check, enum=_bool.enum_constraint_shapes, nontrivial=nontrivial, classes=classes,
        exhaustive=False),
    Sub("export", check, gen=lambda tier: S.model_specs(PROFILE, 1, 9).map(_unify_attr_types), nontrivial=nontrivial,
        classes=classes, n={"quick": 800, "thorough": 6000},
        essential=["rel:mutex", "rel:cardinal", "attrs", "attr-name-needs-quotes", "name-needs-quotes", "operator-word-name",
                   "op:XOR", "op:EQUIVALENCE", "op:EXCLUDES"]),
]

MANIFEST = {
    "technique": "property-based testing with the export treated as a program: independent interpreter of the emitted Clafer subset evaluated over all 2^n selections against an independent brute-force configuration enumerator, plus spelling-consistency predicates",
    "level_text": "For every generated Clafer-fragment model (<= 9 features) the export is parsed, its instances are compared with the brute-force configuration set over all selections, and every feature/attribute spelling is compared between declaration and uses. Sampling over models. Also: groups of 10-24 members judged on boundary selections carried by the case, every constraint tree of two exhaustive families on a fixed model, a failing export before the real one; the interpreter takes the hierarchy from the instance line (independent of helper names). A sample of every sub-check additionally runs in a `python -OO` child with the root logger at DEBUG.",
    "level_note": "Trusted: vf/interp.py (my transcription of the Clafer subset and its group semantics), vf/semantics.py.",
}
