"""C19 - operations depend only on their argument; read-only ones never mutate it."""
import random

from hypothesis import strategies as st

from vf import build, strategies as S
from vf.oracle import Raised, lib
from vf.props import _bool
from vf.runner import Sub

ID = "C19"
RULE = ("A case is a history over up to 3 models (boolean_any profile with attributes and logical constraints) and one "
        "long-lived instance of each of the eleven operations: 2-10 steps, each executing one operation on one model "
        "(ancestors with a drawn feature; random-attribute generation with a drawn name, domain = element list of mixed "
        "types / integer ranges / float ranges / mixtures, only-leaf flag, random seed, some features already carrying "
        "the attribute; also the missing-domain calls). Read-only steps are compared with a fresh operation object on an "
        "independently rebuilt twin of the model and must leave the snapshot unchanged. Non-trivial: >=2 different models "
        "on one operation object, or attribute generation with a mixed domain or with pre-existing attributes.")
ASSUMPTIONS = [
    "float range bounds are plain decimals (up to 12 fraction digits, ranges as narrow as one unit in the last place or degenerate) with |x| >= 1e-4 or 0 and <= 1e6 (the library derives the rounding digits from str(float))",
    "distributional claims (uniformity, reachability of bounds) are not decided - only membership, integer-ness and 'exactly one attribute'",
    "element membership is type-strict (True is not 1); a number inside an integer-bounded range must be an int",
]

READ_ONLY = ["FMAtomicSets", "FMAverageBranchingFactor", "FMCoreFeatures", "FMCountLeafs",
             "FMEstimatedConfigurationsNumber", "FMFeatureAncestors", "FMLeafFeatures", "FMMaxDepthTree",
             "FMMetrics", "FMVariationPoints"]
ATTR_POOL = ["cost", "w", "tag", "x y", "π"]


def _attrs(draw, fname):
    if draw(st.integers(0, 1)):
        return []
    names = draw(st.lists(st.sampled_from(ATTR_POOL), min_size=1, max_size=2, unique=True))
    vals = st.one_of(st.none(), st.booleans(), st.integers(-5, 50), st.sampled_from(["a", "", "zz"]),
                     st.sampled_from([{"$float": "0.5"}, {"$float": "12.25"}]))
    return [{"name": n, "value": draw(vals)} for n in names]


PROFILE = S.Profile(S.ident_or_dict_names(), single=("mandatory", "optional"),
                    group=("alternative", "or", "mutex", "card"), layout="free", attrs=_attrs, ctc_max=3, ctc_depth=4)


def _dec(draw):
    """plain-decimal float, |x| >= 1e-4 or 0, as a string"""
    sign = draw(st.sampled_from(["", "", "-"]))
    whole = draw(st.integers(0, 999))
    frac = draw(st.one_of(st.sampled_from(["0", "5", "25", "125", "0625", "1", "3", "7", "01", "001", "0001", "9999"]),
                          st.text(alphabet="0123456789", min_size=5, max_size=12)))
    if whole == 0 and frac[:4] == "0000"[:len(frac[:4])] and set(frac) != {"0"}:
        frac = "1" + frac[1:]            # keep |x| >= 1e-4: str() of smaller floats has an exponent (see ASSUMPTIONS)
    return f"{sign}{whole}.{frac}"


def _narrow(draw):
    """Two plain decimals with many digits that differ only in the last places (a range narrower than 1e-6), or equal."""
    whole = draw(st.integers(0, 99))
    head = draw(st.text(alphabet="0123456789", min_size=5, max_size=9))
    if whole == 0 and head[:4] == "0000":
        head = "1" + head[1:]
    t1 = draw(st.text(alphabet="0123456789", min_size=1, max_size=2))
    t2 = draw(st.one_of(st.just(t1), st.text(alphabet="0123456789", min_size=1, max_size=2)))
    sign = draw(st.sampled_from(["", "", "-"]))
    return sorted([float(f"{sign}{whole}.{head}{t1}"), float(f"{sign}{whole}.{head}{t2}")])


@st.composite
def domains(draw):
    kind = draw(st.sampled_from(["elements", "int-ranges", "float-ranges", "mixed", "mixed"]))
    elements, ranges = [], []
    if kind in ("elements", "mixed"):
        elements = draw(st.lists(st.one_of(st.integers(-3, 3), st.booleans(), st.sampled_from(["a", "b", ""]),
                                           st.sampled_from([{"$float": "0.5"}, {"$float": "2.0"}]), st.none()),
                                 min_size=1, max_size=4))
    if kind in ("int-ranges", "mixed") and (kind != "mixed" or draw(st.booleans())):
        for _ in range(draw(st.integers(1, 3))):
            lo = draw(st.integers(-50, 50))
            ranges.append([lo, lo + draw(st.integers(0, 20))])
    if kind in ("float-ranges", "mixed") and (kind != "mixed" or not ranges or draw(st.booleans())):
        for _ in range(draw(st.integers(1, 2))):
            a, b = _narrow(draw) if draw(st.integers(0, 3)) == 0 else sorted([float(_dec(draw)), float(_dec(draw))])
            lo = {"$float": repr(a)}
            hi = {"$float": repr(b)}
            mixed = draw(st.integers(0, 7))
            if mixed == 0:          # int/float mixed bounds
                lo = int(a) if int(a) <= b else lo
            elif mixed == 1:        # float low, int high
                import math as _m
                hi = int(_m.ceil(b)) + 1
            ranges.append([lo, hi])
    return {"elements": elements, "ranges": ranges, "kind": kind}


@st.composite
def histories(draw):
    nm = draw(st.integers(1, 3))
    models = [draw(S.model_specs(PROFILE, 1, 9)) for _ in range(nm)]
    if nm >= 2 and draw(st.integers(0, 2)) == 0:
        models[-1] = S.eq_twin(draw, models[0])       # == to models[0] for the library, yet a different model
    steps = []
    for _ in range(draw(st.integers(2, 10))):
        i = draw(st.integers(0, nm - 1))
        if draw(st.integers(0, 3)) == 0:
            kind = draw(st.sampled_from(["gra", "gra", "gra", "gra-fresh-no-domain", "gra-domain-none"]))
            step = {"op": "GenerateRandomAttribute", "model": i, "variant": kind,
                    "name": draw(st.sampled_from(ATTR_POOL + ["new1", "new 2"])),
                    "only_leaf": draw(st.booleans()), "seed": draw(st.integers(0, 2**32 - 1))}
            if kind == "gra":
                earlier = [s_["domain"] for s_ in steps if s_.get("domain")]
                step["domain"] = draw(st.sampled_from(earlier)) if earlier and draw(st.booleans()) else draw(domains())
            steps.append(step)
        else:
            op = draw(st.sampled_from(READ_ONLY))
            step = {"op": op, "model": i}
            if op == "FMFeatureAncestors":
                step["feature"] = draw(st.integers(0, 40))
            steps.append(step)
    return {"models": models, "steps": steps}


def normalise(op, res):
    if op == "FMAtomicSets":
        return sorted(sorted(f.name for f in s) for s in res)
    if op in ("FMCoreFeatures", "FMLeafFeatures"):
        return sorted(f.name for f in res)
    if op == "FMFeatureAncestors":
        return [f.name for f in res]
    if op == "FMVariationPoints":
        return {k.name: sorted(v.name for v in vs) for k, vs in res.items()}
    if op == "FMMetrics":
        from vf.props.c17 import _norm
        return _norm(list(res))
    return res


def _strip_attr(snap, name, touched):
    """Snapshot without the attribute `name` on the features listed in `touched`."""
    import copy
    s = copy.deepcopy(snap)
    for e in s["features"]:
        if e["name"] in touched:
            e["attrs"] = [a for a in e["attrs"] if a["name"] != name]
    return s


def _in_domain(value, dom):
    for el in dom["elements"]:
        el = build.thaw(el)
        if type(el) is type(value) and el == value:
            return True
    if isinstance(value, bool) or not isinstance(value, (int, float)):
        return False
    for lo, hi in dom["ranges"]:
        lo, hi = build.thaw(lo), build.thaw(hi)
        tol = 1e-9 * max(1.0, abs(lo), abs(hi))
        if lo - tol <= value <= hi + tol:
            if isinstance(lo, int) and isinstance(hi, int):
                if isinstance(value, int):
                    return True
            else:
                return True
    return False


def check(case):
    import flamapy.metamodels.fm_metamodel.operations as ops
    from flamapy.core.exceptions import FlamaException
    from flamapy.metamodels.fm_metamodel.models import Domain, Range
    out = []
    fms = [build.build(m) for m in case["models"]]
    shared = {name: getattr(ops, name)() for name in READ_ONLY + ["GenerateRandomAttribute"]}
    domains_seen = {}
    for k, step in enumerate(case["steps"]):
        i = step["model"]
        fm = fms[i]
        before = build.snapshot(fm)
        if before["problems"]:
            out.append(("C19.harness.model-not-a-tree", str(before["problems"])))
            return out
        opname = step["op"]
        if opname != "GenerateRandomAttribute":
            twin = build.build(build.spec_from_observation(before))
            feats, _ = build.walk_objects(fm)
            tfeats, _ = build.walk_objects(twin)

            def run(obj, model, flist):
                if opname == "FMFeatureAncestors":
                    obj.set_feature(flist[step["feature"] % len(flist)])
                if opname == "FMMetrics":
                    obj.filter = None
                return obj.execute(model).get_result()

            got = lib(run, shared[opname], fm, feats)
            want = lib(run, getattr(ops, opname)(), twin, tfeats)
            after = build.snapshot(fm)
            if after != before:
                out.append((f"C19.model-modified:{opname}", f"step {k}"))
            if isinstance(got, Raised) or isinstance(want, Raised):
                if isinstance(got, Raised) != isinstance(want, Raised):
                    r = got if isinstance(got, Raised) else want
                    out.append((f"C19.history-dependent-exception:{opname}", f"step {k}: {r.text}"))
                continue   # whether an operation may raise at all is C16/C17's business
            if normalise(opname, got) != normalise(opname, want):
                out.append((f"C19.history-dependent:{opname}",
                            f"step {k}: long-lived object {normalise(opname, got)!r:.120} vs fresh object on a rebuilt copy {normalise(opname, want)!r:.120}"))
            continue
        # --- random attribute generation
        variant = step["variant"]
        if variant == "gra-fresh-no-domain":
            op = ops.GenerateRandomAttribute()
            op.set_name(step["name"])
            res = lib(lambda: op.execute(fm))
            if not isinstance(res, Raised):
                out.append(("C19.gra.missing-domain-accepted", f"step {k}"))
            elif not isinstance(res.exc, FlamaException):
                out.append((f"C19.gra.missing-domain-not-library-error:{type(res.exc).__name__}", res.text))
            if build.snapshot(fm) != before:
                out.append(("C19.gra.missing-domain-modified-model", f"step {k}"))
            continue
        op = shared["GenerateRandomAttribute"]
        op.set_name(step["name"])
        op.set_only_leaf_features(step["only_leaf"])
        if variant == "gra-domain-none":
            op.set_domain(None)
            res = lib(lambda: op.execute(fm))
            if not isinstance(res, Raised):
                out.append(("C19.gra.missing-domain-accepted", f"step {k}"))
            elif not isinstance(res.exc, FlamaException):
                out.append((f"C19.gra.missing-domain-not-library-error:{type(res.exc).__name__}", res.text))
            if build.snapshot(fm) != before:
                out.append(("C19.gra.missing-domain-modified-model", f"step {k}"))
            continue
        dom = step["domain"]
        # one Domain object per distinct domain of the history: a user sets a domain once and executes several
        # times, so the attributes created earlier hold the very object the next execution draws from
        dkey = repr(dom)
        if dkey not in domains_seen:
            domains_seen[dkey] = Domain([Range(build.thaw(lo), build.thaw(hi)) for lo, hi in dom["ranges"]],
                                        [build.thaw(e) for e in dom["elements"]])
        domain = domains_seen[dkey]
        op.set_domain(domain)
        state = random.getstate()
        random.seed(step["seed"])
        try:
            res = lib(lambda: op.execute(fm).get_result())
        finally:
            random.setstate(state)
        if isinstance(res, Raised):
            out.append((f"C19.gra.raised:{res.label}", f"step {k}: {res.text}"))
            continue
        if res is not fm:
            out.append(("C19.gra.result-is-not-the-model", f"step {k}"))
        after = build.snapshot(fm)
        name = step["name"]
        targeted = set()
        for eb, ea in zip(before["features"], after["features"]):
            had = [a for a in eb["attrs"] if a["name"] == name]
            has = [a for a in ea["attrs"] if a["name"] == name]
            is_target = (not step["only_leaf"]) or not eb["rels"]
            if had or not is_target:
                if ea["attrs"] != eb["attrs"]:
                    out.append(("C19.gra.untargeted-feature-changed", f"step {k}: {eb['name']!r}"))
                continue
            targeted.add(eb["name"])
            if len(has) != 1:
                out.append(("C19.gra.not-exactly-one-attribute", f"step {k}: {eb['name']!r} has {len(has)}"))
                continue
            if not has[0]["parent_ok"]:
                out.append(("C19.gra.attribute-parent-not-set", f"step {k}: {eb['name']!r}"))
            if [a for a in ea["attrs"] if a["name"] != name] != eb["attrs"]:
                out.append(("C19.gra.other-attributes-changed", f"step {k}: {eb['name']!r}"))
        # values: read from the objects (typed)
        feats, _ = build.walk_objects(fm)
        for f in feats:
            if f.name in targeted:
                vals = [a.default_value for a in f.attributes if a.name == name]
                if len(vals) == 1 and not _in_domain(vals[0], dom):
                    out.append(("C19.gra.value-outside-domain", f"step {k}: {vals[0]!r} for domain {dom}"))
        if _strip_attr(after, name, targeted) != _strip_attr(before, name, targeted):
            out.append(("C19.gra.rest-of-model-changed", f"step {k}"))
    return list(dict.fromkeys(out))


def nontrivial(case):
    per_op = {}
    for s in case["steps"]:
        per_op.setdefault(s["op"], set()).add(s["model"])
    if any(len(v) >= 2 for v in per_op.values()):
        return True
    for s in case["steps"]:
        if s["op"] == "GenerateRandomAttribute" and s.get("variant") == "gra":
            if s["domain"]["kind"] == "mixed":
                return True
            m = case["models"][s["model"]]
            if any(a["name"] == s["name"] for f, _ in build.iter_feats(m["root"]) for a in f["attrs"]):
                return True
    return False


def classes(case):
    out = set()
    per_op = {}
    for s in case["steps"]:
        per_op.setdefault(s["op"], set()).add(s["model"])
        out.add("op:" + s["op"])
        if s["op"] == "GenerateRandomAttribute":
            out.add("gra:" + s["variant"])
            if s.get("domain"):
                out.add("domain:" + s["domain"]["kind"])
                m = case["models"][s["model"]]
                if any(a["name"] == s["name"] for f, _ in build.iter_feats(m["root"]) for a in f["attrs"]):
                    out.add("gra:pre-existing-attribute")
    if any(len(v) >= 2 for v in per_op.values()):
        out.add("object-reused-across-models")
    return out


SUBS = [
    Sub("histories", check, gen=lambda tier: histories(), nontrivial=nontrivial, classes=classes,
        n={"quick": 800, "thorough": 6000},
        essential=["object-reused-across-models", "domain:mixed", "domain:float-ranges", "domain:int-ranges",
                   "domain:elements", "gra:pre-existing-attribute", "gra:gra-fresh-no-domain", "gra:gra-domain-none"]
        + ["op:" + o for o in READ_ONLY]),
]

MANIFEST = {
    "technique": "model-based property testing: Hypothesis draws histories of operation executions over up to three models on long-lived operation objects; oracle = snapshot equality (no mutation), agreement with a fresh object on an independently rebuilt twin, and a reference model of random-attribute generation",
    "level_text": "Generated histories (2-10 steps, 11 operations, 3 models): after every step the model snapshot, the result against a fresh object on a rebuilt copy, and for attribute generation the exact set of changed features, attribute multiplicity, parent link, domain membership and integer-ness are checked. Sampling only. Also: one Domain object per distinct domain of a history, narrow many-decimal and mixed int/float range bounds. A sample of every sub-check additionally runs in a `python -OO` child with the root logger at DEBUG.",
    "level_note": "Trusted: vf/build.py snapshot/rebuild, the domain-membership predicate in vf/props/c19.py. Distribution of random values is not decided.",
}
