"""C03 - model queries agree with the feature tree they describe."""
import collections

from hypothesis import strategies as st

from vf import build, logic, strategies as S
from vf.oracle import Raised, lib
from vf.runner import Sub

ID = "C03"
RULE = ("Cases are feature models drawn by the 'any' profile (random recursive trees of 1..30 features, "
        "every relation (min,max,n) with 0<=min<=max<=n, several relations per parent, typed features, "
        "feature cardinalities, constraint lists mixing logical/arithmetic/aggregate trees) built through "
        "the public constructors, plus exhaustively every (min,max,n) with n<=8 on a two-level model, plus "
        "models returned by JSONReader/UVLReader for writer output. A case is non-trivial when the model "
        "has a relation with n>=2 that is neither alternative nor or, or a parent with >=2 relations, or a "
        "non-Boolean or multi feature; distinct = distinct SHA-1 of the canonical case JSON.")
ASSUMPTIONS = [
    "the reference answers are computed from a walk over public attributes (root, relations, children, "
    "parent, card_min/max, feature_type, feature_cardinality) - never from get_features/get_relations",
    "n=1 with (0,0) is in none of the five named classes; is_cardinal is left unconstrained for it "
    "(DESIGN C03: ambiguity of the statement, not a defect)",
    "order of listings is not compared (no order is promised); multiplicity and identity are",
]

CMP = list(logic.COMPARISON)


# ------------------------------------------------------------------ generators
def _any_ctc(draw, names, feats):
    kind = draw(st.integers(0, 5))
    if kind <= 2:
        return draw(S.expr_of_depth(names, logic.LOGICAL, draw(st.integers(0, 3))))
    ref = lambda: ["T", draw(st.sampled_from(names)) + "." + draw(st.sampled_from(["a", "cost", "w"]))]  # noqa: E731

    def arith(d):
        c = draw(st.integers(0, 5))
        if d <= 0 or c == 0:
            return ref()
        if c == 1:
            return ["I", draw(st.integers(0, 99))]
        if c == 2:
            return ["F", draw(st.sampled_from(["0.5", "2.25", "10.0"]))]
        if c == 3:
            agg = draw(st.sampled_from(["SUM", "AVG"]))
            return [agg, ["T", draw(st.sampled_from(["a", "cost"]))], ["T", draw(st.sampled_from(names))]]
        if c == 4:
            return [draw(st.sampled_from(["LEN", "FLOOR", "CEIL"])), ref()]
        return [draw(st.sampled_from(logic.ARITH)), arith(d - 1), arith(d - 1)]

    cmp_ = [draw(st.sampled_from(CMP)), arith(2), arith(2)]
    if kind == 3:
        return cmp_
    if kind == 4:
        return [draw(st.sampled_from(["AND", "OR", "IMPLIES"])), cmp_, ["T", draw(st.sampled_from(names))]]
    return ["NOT", cmp_]


ANY = S.Profile(S.ident_or_dict_names(), single=("mandatory", "optional", "card1"),
                group=("alternative", "or", "mutex", "card"), layout="free",
                ftypes=("BOOLEAN", "BOOLEAN", "INTEGER", "REAL", "STRING"), fcards=True,
                ctc_max=5, ctc_expr=_any_ctc, wide=True, simple_ops=logic.LOGICAL)


@st.composite
def cases(draw, max_feats):
    model = draw(S.model_specs(ANY, 1, max_feats))
    names = build.names(model)
    unknown = draw(st.lists(st.one_of(S.ident_names(), st.sampled_from(names).map(lambda n: n + "x"),
                                      st.sampled_from(names).map(lambda n: n[:-1]),
                                      st.sampled_from(names).map(str.swapcase)), max_size=3))
    return {"model": model, "lookups": unknown, "source": "constructors"}


def gen(tier):
    return cases(30 if tier == "thorough" else 20)


def enum_triples(tier, seed):
    out = []
    for n in range(1, 9):
        for lo in range(0, n + 1):
            for hi in range(lo, n + 1):
                kids = [build.feat(f"K{i}") for i in range(n)]
                # second relation next to it so that "several relations per parent" is exercised
                root = build.feat("R", [build.rel(lo, hi, kids), build.rel(1, 1, [build.feat("M")])])
                out.append({"model": {"root": root, "ctcs": []}, "lookups": ["K", "K10", "r"],
                            "source": "constructors"})
    return out


@st.composite
def reader_cases(draw):
    from vf import strategies as _S
    via = draw(st.sampled_from(["json", "uvl"]))
    model = draw(S.model_specs(S.JSON if via == "json" else S.UVL, 1, 12))
    return {"model": model, "lookups": [build.names(model)[0] + "?"], "source": via}


# ------------------------------------------------------------------ reference
def rel_class(lo, hi, n):
    if n == 1:
        if (lo, hi) == (1, 1):
            return "mandatory"
        if (lo, hi) == (0, 1):
            return "optional"
        return "other1"
    if (lo, hi) == (1, 1):
        return "alternative"
    if (lo, hi) == (1, n):
        return "or"
    if (lo, hi) == (0, 1):
        return "mutex"
    return "cardinal"


def _ids(objs):
    return collections.Counter(id(o) for o in objs)


def _same_objs(got, want):
    return not isinstance(got, Raised) and isinstance(got, list) and _ids(got) == _ids(want)


def check_model(fm, out):
    """All C03 claims on model `fm`; reference = walk over public attributes."""
    feats, rels = build.walk_objects(fm)
    owner = {}           # id(child) -> (parent, relation)
    for f in feats:
        for r in f.relations:
            for c in r.children:
                owner[id(c)] = (f, r)

    def q(kind, got, ok, detail=""):
        if isinstance(got, Raised):
            out.append((f"C03.{kind}.raised:{got.label}", got.text))
        elif not ok:
            out.append((f"C03.{kind}", detail or repr(got)[:200]))

    got = lib(fm.get_features)
    q("get_features", got, _same_objs(got, feats), f"expected {[f.name for f in feats]}, got {got!r:.200}")
    got = lib(fm.get_relations)
    q("get_relations", got, _same_objs(got, rels), f"expected {len(rels)} relations, got {got!r:.200}")

    by_name = collections.defaultdict(list)
    for f in feats:
        by_name[f.name].append(f)
    for name, objs in by_name.items():
        got = lib(fm.get_feature_by_name, name)
        q("get_feature_by_name", got, any(got is o for o in objs), f"{name!r} -> {got!r}")

    klass = {id(r): rel_class(r.card_min, r.card_max, len(r.children)) for r in rels}
    for r in rels:
        k = klass[id(r)]
        n = len(r.children)
        preds = {"mandatory": lib(r.is_mandatory), "optional": lib(r.is_optional),
                 "alternative": lib(r.is_alternative), "or": lib(r.is_or), "mutex": lib(r.is_mutex),
                 "cardinal": lib(r.is_cardinal)}
        grp = lib(r.is_group)
        for pname, val in preds.items():
            if isinstance(val, Raised):
                out.append((f"C03.rel.is_{pname}.raised:{val.label}", val.text))
                continue
            if k == "other1" and pname == "cardinal":
                continue  # ambiguous triple, see ASSUMPTIONS
            want = (pname == k)
            if val is not want:
                out.append((f"C03.rel.is_{pname}", f"({r.card_min},{r.card_max},n={n}) expected {want}, got {val!r}"))
        q("rel.is_group", grp, grp is (n >= 2), f"n={n} got {grp!r}")

    for f in feats:
        par = owner.get(id(f))
        pk = klass[id(par[1])] if par else None
        fk = [klass[id(r)] for r in f.relations]
        ngroups = sum(len(r.children) >= 2 for r in f.relations)
        want = {
            "is_root": par is None, "is_leaf": len(f.relations) == 0,
            "is_mandatory": pk == "mandatory", "is_optional": pk == "optional",
            "is_or_group": "or" in fk, "is_alternative_group": "alternative" in fk,
            "is_mutex_group": "mutex" in fk, "is_cardinality_group": "cardinal" in fk,
            "is_group": ngroups >= 1, "is_multiple_group_decomposition": ngroups >= 2,
            "is_boolean": f.feature_type.name == "BOOLEAN",
            "is_numerical": f.feature_type.name in ("INTEGER", "REAL"),
            "is_string": f.feature_type.name == "STRING",
            "is_multifeature": (f.feature_cardinality.min, f.feature_cardinality.max) != (1, 1),
        }
        for meth, w in want.items():
            got = lib(getattr(f, meth))
            q(f"feat.{meth}", got, got is w, f"{f.name!r}: expected {w}, got {got!r}")
        got = lib(f.get_parent)
        q("feat.get_parent", got, got is (par[0] if par else None), f"{f.name!r} -> {got!r}")
        kids = [c for r in f.relations for c in r.children]
        got = lib(f.get_children)
        q("feat.get_children", got, _same_objs(got, kids), f"{f.name!r} -> {got!r:.200}")
        got = lib(f.get_relations)
        q("feat.get_relations", got, _same_objs(got, list(f.relations)), f"{f.name!r}")

    def listing(meth, pred):
        got = lib(getattr(fm, meth))
        want = [f for f in feats if pred(f)]
        q(f"model.{meth}", got, _same_objs(got, want),
          f"expected {[f.name for f in want]}, got {got!r:.200}")

    def pclass(f):
        par = owner.get(id(f))
        return klass[id(par[1])] if par else None

    listing("get_mandatory_features", lambda f: pclass(f) == "mandatory")
    listing("get_optional_features", lambda f: pclass(f) == "optional")
    listing("get_alternative_group_features", lambda f: any(klass[id(r)] == "alternative" for r in f.relations))
    listing("get_or_group_features", lambda f: any(klass[id(r)] == "or" for r in f.relations))
    listing("get_boolean_features", lambda f: f.feature_type.name == "BOOLEAN")
    listing("get_numerical_features", lambda f: f.feature_type.name in ("INTEGER", "REAL"))
    listing("get_string_features", lambda f: f.feature_type.name == "STRING")

    ctcs = list(fm.ctcs)
    got = lib(fm.get_constraints)
    q("model.get_constraints", got, _same_objs(got, ctcs))
    exprs = []
    for c in ctcs:
        try:
            exprs.append(build.node_to_expr(c.ast.root))
        except ValueError:
            exprs.append(None)

    def clisting(meth, pred):
        got = lib(getattr(fm, meth))
        want = [c for c, e in zip(ctcs, exprs) if e is not None and pred(c, e)]
        if any(e is None for e in exprs):
            return
        q(f"model.{meth}", got, _same_objs(got, want),
          f"expected {[str(c) for c in want]}, got {[str(c) for c in got] if isinstance(got, list) else got!r}")

    clisting("get_logical_constraints", lambda c, e: logic.is_logical(e))
    clisting("get_arithmetic_constraints", lambda c, e: logic.is_arithmetic(e))
    clisting("get_aggregations_constraints", lambda c, e: logic.is_aggregation(e))
    for meth, pred in (("get_simple_constraints", "is_simple_constraint"),
                       ("get_complex_constraints", "is_complex_constraint"),
                       ("get_pseudocomplex_constraints", "is_pseudocomplex_constraint"),
                       ("get_strictcomplex_constraints", "is_strictcomplex_constraint"),
                       ("get_requires_constraints", "is_requires_constraint"),
                       ("get_excludes_constraints", "is_excludes_constraint")):
        flags = [lib(getattr(c, pred)) for c in ctcs]
        if any(isinstance(x, Raised) for x in flags):
            continue      # whether these predicates may raise is C18's business
        got = lib(getattr(fm, meth))
        want = [c for c, fl in zip(ctcs, flags) if fl]
        q(f"model.{meth}", got, _same_objs(got, want), f"{meth}")
        if meth == "get_strictcomplex_constraints" and isinstance(got, list):
            # one-way backstop shared with C18/C17: 'cannot be transformed to a set of simple constraints' is refuted
            # when every textbook clause transformation yields simple constraints only
            for c, e in zip(ctcs, exprs):
                if e is not None and any(c is g for g in got) and logic.is_logical(e) and logic.unanimously_pseudo(e) is True:
                    out.append(("C03.model.get_strictcomplex_constraints.transformable", logic.canon(e)[:200]))
    return feats, rels


def spec_matches_objects(fspec, fobj, out):
    if fspec["name"] != fobj.name or len(fspec["rels"]) != len(fobj.relations):
        out.append(("C03.harness.build-mismatch", fspec["name"]))
        return
    for rs, ro in zip(fspec["rels"], fobj.relations):
        if (rs["min"], rs["max"], len(rs["children"])) != (ro.card_min, ro.card_max, len(ro.children)):
            out.append(("C03.harness.build-mismatch", fspec["name"]))
            return
        for cs, co in zip(rs["children"], ro.children):
            spec_matches_objects(cs, co, out)


def check(case):
    out = []
    model = case["model"]
    fm = build.build(model)
    if case.get("source") in ("json", "uvl"):
        from vf.oracle import Scratch
        import flamapy.metamodels.fm_metamodel.transformations as T
        wcls, rcls = (T.JSONWriter, T.JSONReader) if case["source"] == "json" else (T.UVLWriter, T.UVLReader)
        with Scratch() as sc:
            p = sc.path("m." + case["source"])
            w = lib(lambda: wcls(p, fm).transform())
            if isinstance(w, Raised):
                return out        # writer problems are C01/C05's business
            fm = lib(lambda: rcls(p).transform())
            if isinstance(fm, Raised):
                return out
    else:
        spec_matches_objects(model["root"], fm.root, out)
    feats, _ = check_model(fm, out)
    present = {f.name for f in feats}
    for name in case.get("lookups", []):
        if name in present:
            continue
        got = lib(fm.get_feature_by_name, name)
        if isinstance(got, Raised):
            out.append((f"C03.get_feature_by_name.raised:{got.label}", got.text))
        elif got is not None:
            out.append(("C03.get_feature_by_name.unknown", f"{name!r} -> {got!r}"))
    return out


CTC_LISTINGS = ("get_logical_constraints", "get_arithmetic_constraints", "get_aggregations_constraints",
                "get_simple_constraints", "get_complex_constraints", "get_pseudocomplex_constraints",
                "get_strictcomplex_constraints", "get_requires_constraints", "get_excludes_constraints")
CTC_PREDICATES = ("is_logical_constraint", "is_arithmetic_constraint", "is_aggregation_constraint",
                  "is_single_feature_constraint", "is_simple_constraint", "is_complex_constraint",
                  "is_pseudocomplex_constraint", "is_strictcomplex_constraint", "is_requires_constraint",
                  "is_excludes_constraint")


def _ctc_reports(fm):
    """Everything the library reports about the constraints of fm, as plain data keyed by constraint position."""
    rep = {}
    for meth in CTC_LISTINGS:
        got = lib(getattr(fm, meth))
        rep[meth] = got.label if isinstance(got, Raised) else sorted(i for i, c in enumerate(fm.ctcs) if any(c is g for g in got))
    for i, c in enumerate(fm.ctcs):
        for pred in CTC_PREDICATES:
            got = lib(getattr(c, pred))
            rep[f"{pred}#{i}"] = got.label if isinstance(got, Raised) else got
        got = lib(c.get_features)
        rep[f"get_features#{i}"] = got.label if isinstance(got, Raised) else sorted(got)
    return rep


def check_history(case):
    """One model object, queried, edited in place through the public API (tree edits; constraint formulas replaced
    through the `ast` property), queried again: every query must describe the model as it is now - checked against the
    object graph (check_model) and, for the constraint reports, against a fresh build of the edited model."""
    from vf.props import _bool
    out = []
    fm = build.build(case["model"])
    check_model(fm, out)
    _ctc_reports(fm)
    for step, ed in enumerate(case["edits"]):
        _bool.morph_checked(fm, ed["model"])
        sub_out = []
        check_model(fm, sub_out)
        mine, fresh = _ctc_reports(fm), _ctc_reports(build.build(ed["model"]))
        for k in mine:
            if mine[k] != fresh.get(k):
                sub_out.append((f"C03.ctc-report-differs-from-fresh-build:{k.split('#')[0]}",
                                f"{k}: edited object {mine[k]!r:.80}, fresh build {fresh.get(k)!r:.80}"))
                break
        out += [(k.replace("C03.", "C03.after-in-place-edit.", 1), f"step {step} ({ed['label']}): {d}") for k, d in sub_out]
    return list(dict.fromkeys(out))


def nontrivial(case):
    m = case["model"]
    for f, _ in build.iter_feats(m["root"]):
        if len(f["rels"]) >= 2 or f["ftype"] != "BOOLEAN" or f["fcard"] not in (None, [1, 1]):
            return True
        for r in f["rels"]:
            n = len(r["children"])
            if n >= 2 and rel_class(r["min"], r["max"], n) not in ("alternative", "or"):
                return True
    return False


def classes(case):
    if "edits" in case:
        return {"edit:" + e["label"] for e in case["edits"]}
    return _classes(case)


def _classes(case):
    m = case["model"]
    out = set()
    for r, _ in build.iter_rels(m["root"]):
        out.add("rel:" + rel_class(r["min"], r["max"], len(r["children"])))
    for f, _ in build.iter_feats(m["root"]):
        if len(f["rels"]) >= 2:
            out.add("multi-relations-parent")
        if f["ftype"] != "BOOLEAN":
            out.add("typed")
        if f["fcard"] is not None:
            out.add("fcard")
    for c in m["ctcs"]:
        e = c["ast"]
        out.add("ctc:" + ("aggregate" if logic.is_aggregation(e) else "arithmetic" if logic.is_arithmetic(e) else "logical"))
    if len(build.names(m)) == 1:
        out.add("root-only")
    return out


def _histories(tier):
    from vf.props import _bool
    hist_profile = S.Profile(S.ident_names(), single=("mandatory", "optional", "card1"),
                             group=("alternative", "or", "mutex", "card"), layout="free",
                             ftypes=("BOOLEAN", "BOOLEAN", "INTEGER", "REAL", "STRING"), fcards=True, ctc_max=4,
                             ctc_depth=3)
    return _bool.edit_histories(hist_profile, 10, with_ctcs=True, formula_edits=True)


def enum_big_constraints(tier, seed):
    from vf.props import c17, c18
    out = [{"model": c["models"][0], "lookups": [], "source": "constructors"} for c in c17.enum_big_constraints(tier, seed)]
    # C18's caterpillar family, four constraints per flat model (the listings are what C03 is about)
    chains = [c["ast"] for c in c18.enum_chains(tier, seed)]
    if tier != "thorough":
        chains = chains[::3]
    names = ["A", "B", "C", "D", "E", "F", "G", "H"]
    for i in range(0, len(chains), 4):
        root = build.feat("Root", [build.rel(0, 1, [build.feat(x)]) for x in names])
        out.append({"model": {"root": root, "ctcs": [{"name": f"K{j}", "ast": e} for j, e in enumerate(chains[i:i + 4])]},
                    "lookups": [], "source": "constructors"})
    return out


SUBS = [
    Sub("big-constraints", check, enum=enum_big_constraints, nontrivial=lambda case: True,
        classes=lambda case: {"big-constraint"}),
    Sub("edit-histories", check_history, gen=_histories, nontrivial=lambda case: True, classes=classes,
        n={"quick": 150, "thorough": 2000}, essential=["edit:move", "edit:operator-same-kind", "edit:operand-existing"]),
    Sub("constructed", check, gen=gen, nontrivial=nontrivial, classes=classes,
        n={"quick": 800, "thorough": 6000},
        essential=["rel:mutex", "rel:cardinal", "rel:other1", "multi-relations-parent", "typed",
                   "ctc:arithmetic", "ctc:aggregate"]),
    Sub("triples-n<=8", check, enum=enum_triples, nontrivial=nontrivial, classes=classes, exhaustive=True),
    Sub("reader-sourced", check, gen=lambda tier: reader_cases(), nontrivial=nontrivial, classes=classes,
        n={"quick": 20, "thorough": 600}, shards={"quick": 16, "thorough": 16}),
]

MANIFEST = {
    "technique": "property-based testing (Hypothesis structured model generator) + exhaustive enumeration of relation triples, oracle = reference classification computed from a walk over public attributes",
    "level_text": "Generated-input search: thousands of random models over the whole quantified domain plus every (min,max,n) with n<=8, each query compared with an independently computed reference. Establishes absence only for the enumerated triples; elsewhere it is sampling. Also: edit histories (one object queried, edited in place incl. formulas replaced through the `ast` property, queried again; compared with the object graph and a fresh build), C18's bipartite big constraints, and the one-way backstop for the strict-complex listing. A sample of every sub-check additionally runs in a `python -OO` child with the root logger at DEBUG.",
    "level_note": "Trusted: the reference table in vf/props/c03.py (rel_class and the feature/constraint filters), the walk over public attributes, Hypothesis. n=1,(0,0) leaves is_cardinal unconstrained.",
}
