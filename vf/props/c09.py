"""C09 - third-party documents are read as their format defines."""
import json
import os

from hypothesis import strategies as st

from vf import afm_raw, build, emit_formats as EF, fama, logic, roundtrip as rt, strategies as S
from vf.oracle import Raised, Scratch, lib
from vf.props.c03 import rel_class
from vf.props.c06 import spec_attrs
from vf.runner import Sub

ID = "C09"
RULE = ("Cases: documents emitted by four independent reference emitters (vf/emit_formats.py) from reference models, using each "
        "format's syntactic freedom drawn by Hypothesis - FeatureIDE XML (attribute order, mandatory/abstract/hidden absent or with "
        "either value, graphics/description children, n-ary conj/disj, constraints section present/empty/absent, extra sections), "
        "FaMa XML (cardinality before/after children, optional relation names, comments, namespace attributes, BOM, arbitrary "
        "cardinalities, setRelation with one child), AFM (whitespace, parents-first orders, both attribute domain kinds, redundant "
        "or precedence-omitted parentheses; negative class: relational/arithmetic constraints) and Glencoe JSON (ids different from "
        "names, key/table order, note present/absent, GENOR for named groups, n-ary And/Or terms, indentation, raw Unicode) - plus "
        "the shipped FaMa corpus (quick: FaMa suite + Betty files of <= 200 features; thorough: all 1299) against an independent "
        "reading of the XML and the twelve numbers of the Betty .statistics files. Non-trivial: a generated document using >= 1 "
        "freedom the library's writer never uses, or a corpus file with >= 1 group and >= 1 constraint.")
ASSUMPTIONS = ["the meaning of a document is my transcription of the four formats (vf/emit_formats.py, vf/fama.py)",
               "AFM candidates are filtered by the raw afmparser under strict listeners and full-input consumption (dependency)",
               "Betty's 'maximum number of children in a set relationship' has a floor of 1; 'maximum branching factor' counts all children of a feature",
               "unrepresentable constructs: any exception is accepted as 'raises an error'"]


def write(sc, name, text):
    p = sc.path(name)
    with open(p, "w", encoding="utf-8", newline="") as fh:
        fh.write(text)
    return p


def compare_model(pid, model, fm, out, abstract=False, afm_attrs=False, positional=False):
    obs = build.observe(fm)
    out += rt.wellformed(obs, pid)
    out += rt.same_tree(model, obs, pid)
    if abstract:
        out += rt.compare_flags_attrs(model, obs, pid, check_types=False, check_fcard=False, check_attrs=False)
    if afm_attrs:
        by = {f["name"]: f for f in obs["features"]}
        for f, _ in build.iter_feats(model["root"]):
            o = by.get(f["name"])
            if o is None:
                continue
            want = spec_attrs(f)
            got = {a["name"]: {"ranges": (a["domain"] or {}).get("ranges", []), "elements": (a["domain"] or {}).get("elements", []),
                               "default": a["default"], "null": a["null"]} for a in o["attrs"]}
            if want != got:
                out.append((f"{pid}.attributes", f"{f['name']}: expected {want!r:.150}, got {got!r:.150}"))
    exprs = rt.constraint_exprs(fm, pid, out)
    want = [c["ast"] for c in model["ctcs"]]
    if None in exprs:
        return
    if positional:
        if len(exprs) != len(want):
            out.append((f"{pid}.ctc-count", f"expected {len(want)}, got {len(exprs)}"))
            return
        for i, (g, w) in enumerate(zip(exprs, want)):
            try:
                ok = logic.equiv(g, w)
            except (KeyError, ValueError):
                ok = False
            if not ok:
                out.append((f"{pid}.ctc-not-equivalent", f"#{i}: expected {logic.canon(w)}, got {logic.canon(g)}"))
                return
    else:
        bad = logic.match_lists(want, exprs)
        if bad:
            out.append((f"{pid}.ctcs-not-equivalent", bad[:300]))


def check(case):
    import flamapy.metamodels.fm_metamodel.transformations as T
    out = []
    fmt = case["format"]
    if fmt == "corpus":
        return check_corpus(case)
    pid = f"C09.{fmt}"
    with Scratch() as sc:
        if fmt == "featureide":
            p = write(sc, "m.xml", case["text"])
            fm = lib(lambda: T.FeatureIDEReader(p).transform())
        elif fmt == "fama":
            p = write(sc, "m.xml", case["text"])
            fm = lib(lambda: T.XMLReader(p).transform())
        elif fmt == "afm":
            if afm_raw.strict_errors(case["text"]):
                return []                      # dependency parser rejects the candidate: discarded (counted)
            p = write(sc, "m.afm", case["text"])
            fm = lib(lambda: T.AFMReader(p).transform())
        else:
            p = write(sc, "m.gfm.json", case["text"])
            fm = lib(lambda: T.GlencoeReader(p).transform())
    if case.get("expect") == "error":
        if not isinstance(fm, Raised):
            out.append((f"{pid}.unrepresentable-construct-accepted", f"{case['labels']}"))
        return out
    if isinstance(fm, Raised):
        return [(f"{pid}.valid-document-rejected:{fm.label}", fm.text)]
    compare_model(pid, case["model"], fm, out, abstract=(fmt == "featureide"), afm_attrs=(fmt == "afm"),
                  positional=(fmt in ("fama", "glencoe")))
    if fmt == "fama":
        for c, spec in zip(fm.ctcs, case["model"]["ctcs"]):
            e = build.node_to_expr(c.ast.root)
            if e != spec["ast"]:
                out.append((f"{pid}.ctc-kind-or-operands", f"expected {spec['ast']}, got {e}"))
                break
    return out


def model_stats(obs):
    k = [(rel_class(r["min"], r["max"], len(r["children"])), len(r["children"]))
         for f in obs["features"] for r in f["rels"]]
    return {"features": len(obs["features"]),
            "mandatory": sum(1 for c, _ in k if c == "mandatory"), "optional": sum(1 for c, _ in k if c == "optional"),
            "or_rels": sum(1 for c, _ in k if c == "or"), "alt_rels": sum(1 for c, _ in k if c == "alternative"),
            "or_sub": sum(n for c, n in k if c == "or"), "alt_sub": sum(n for c, n in k if c == "alternative"),
            "max_branching": max(sum(len(r["children"]) for r in f["rels"]) for f in obs["features"]),
            "max_set_children": max([n for _, n in k if n >= 2] + [1]),
            "ctcs": len(obs["ctcs"]),
            "requires": sum(1 for c in obs["ctcs"] if c["ast"].get("op") == "REQUIRES"),
            "excludes": sum(1 for c in obs["ctcs"] if c["ast"].get("op") == "EXCLUDES")}


def check_corpus(case):
    from flamapy.metamodels.fm_metamodel.transformations import XMLReader
    out = []
    path = os.path.join(fama.CORPUS, case["corpus"])
    fm = lib(lambda: XMLReader(path).transform())
    if isinstance(fm, Raised):
        return [(f"C09.corpus.rejected:{fm.label}", f"{case['corpus']}: {fm.text}")]
    ref = fama.parse(path)
    obs = build.observe(fm)
    out += rt.wellformed(obs, "C09.corpus")
    out += rt.same_tree(ref, obs, "C09.corpus")
    got = [build.node_to_expr(c.ast.root) for c in fm.ctcs]
    if got != [c["ast"] for c in ref["ctcs"]]:
        out.append(("C09.corpus.constraints", f"{case['corpus']}: {len(got)} vs {len(ref['ctcs'])} or different kinds/operands"))
    st_ = fama.statistics(path)
    if st_:
        mine = model_stats(obs)
        diff = {k: (v, mine[k]) for k, v in st_.items() if mine[k] != v}
        if diff:
            out.append(("C09.corpus.betty-statistics", f"{case['corpus']}: (expected, got) {diff}"))
    return out


def enum_corpus(tier, seed):
    return [{"format": "corpus", "corpus": p} for p in fama.corpus_files(None if tier == "thorough" else 200)]


@st.composite
def unrepresentable(draw):
    """Documents with a construct the library has no representation for: it must raise, not return a model that
    silently lacks (or re-interprets) the construct."""
    which = draw(st.sampled_from(["featureide-atmost1", "featureide-unknown-rule", "glencoe-unknown-term",
                                  "fama-dangling-reference"]))
    if which == "fama-dangling-reference":
        # a requires/excludes element naming a feature the tree does not declare denotes no constraint of this model
        model = draw(S.model_specs(S.FAMA, 2, 6))
        names = build.names(model)
        ghost = draw(st.sampled_from(["Ghost", names[0] + "x", names[-1].swapcase() + "_", ""]))
        if ghost in names:
            ghost = "".join(names) + "?"
        pair = [["T", names[0]], ["T", ghost]]
        if draw(st.booleans()):
            pair.reverse()
        model["ctcs"] = model["ctcs"][:1] + [{"name": "CTC-x", "ast": [draw(st.sampled_from(["REQUIRES", "EXCLUDES"]))] + pair}]
        text, _ = EF.emit_fama(draw, model)
        return {"format": "fama", "model": model, "text": text, "labels": ["unrepresentable:" + which], "expect": "error"}
    if which.startswith("featureide"):
        model = draw(S.model_specs(S.FEATUREIDE, 2, 6))
        model["ctcs"] = []
        text, _ = EF.emit_featureide(draw, model)
        names = build.names(model)
        from xml.sax.saxutils import escape
        a, b = escape(names[0]), escape(names[-1])
        rule = (f"<rule><atmost1><var>{a}</var><var>{b}</var></atmost1></rule>" if which == "featureide-atmost1"
                else f"<rule><nand><var>{a}</var><var>{b}</var></nand></rule>")
        if "<constraints>" in text:
            text = text.replace("<constraints>", "<constraints>" + rule, 1)
        elif "<constraints/>" in text:
            text = text.replace("<constraints/>", "<constraints>" + rule + "</constraints>", 1)
        else:
            text = text.replace("</struct>", "</struct><constraints>" + rule + "</constraints>", 1)
        return {"format": "featureide", "model": model, "text": text, "labels": ["unrepresentable:" + which], "expect": "error"}
    model = draw(S.model_specs(S.GLENCOE_3P, 2, 6))
    model["ctcs"] = [{"name": "K", "ast": ["AND", ["T", build.names(model)[0]], ["T", build.names(model)[-1]]]}]
    text, _ = EF.emit_glencoe(draw, model)
    doc = json.loads(text)
    doc["constraints"]["K"]["type"] = draw(st.sampled_from(["AtMostTerm", "NandTerm", "ForAllTerm"]))
    return {"format": "glencoe", "model": model, "text": json.dumps(doc), "labels": ["unrepresentable:" + which], "expect": "error"}


def gen_for(fmt, profile, emit, max_feats=10, negative=False, min_feats=1):
    @st.composite
    def cases(draw):
        model = draw(S.model_specs(profile, min_feats, max_feats))
        if negative:
            text, labels = emit(draw, model, negative=True)
            return {"format": fmt, "model": model, "text": text, "labels": labels, "expect": "error"}
        text, labels = emit(draw, model)
        return {"format": fmt, "model": model, "text": text, "labels": labels}
    return cases()


def nontrivial(case):
    if case["format"] == "corpus":
        return True
    if case["format"] == "afm" and afm_raw.strict_errors(case["text"]):
        return False
    return len(case["labels"]) >= 1


def classes(case):
    if case["format"] == "corpus":
        parts = case["corpus"].split(os.sep)
        return {"corpus:" + (parts[2] if "simple_betty_gen_models" in case["corpus"] else parts[0])}
    out = {"freedom:" + lb for lb in case["labels"]}
    if case["format"] == "afm":
        out.add("dependency_parser_rejects" if afm_raw.strict_errors(case["text"]) else "kept")
    if not case["model"]["ctcs"]:
        out.add("no-ctcs")
    for c in case["model"]["ctcs"]:
        for o in set(logic.ops_of(c["ast"])):
            out.add("op:" + o)
    for r, _ in build.iter_rels(case["model"]["root"]):
        out.add("rel:" + rel_class(r["min"], r["max"], len(r["children"])))
    return out


N = {"quick": 40, "thorough": 1200}
SUBS = [
    Sub("featureide", check, gen=lambda tier: gen_for("featureide", S.FEATUREIDE, EF.emit_featureide), nontrivial=nontrivial,
        classes=classes, n=N,
        essential=['freedom:mandatory="false"', "freedom:n-ary-rule", "freedom:constraints-section-absent",
                   "freedom:description-in-feature", "freedom:description-in-rule", "freedom:graphics-in-feature",
                   "freedom:attribute-order"]),
    Sub("fama", check, gen=lambda tier: gen_for("fama", S.FAMA, EF.emit_fama), nontrivial=nontrivial, classes=classes, n=N,
        essential=["freedom:cardinality-after-children", "freedom:relation-without-name", "freedom:utf8-bom",
                   "freedom:xml-comment", "rel:cardinal", "rel:mutex"]),
    Sub("afm", check, gen=lambda tier: gen_for("afm", S.AFM, EF.emit_afm, min_feats=2), nontrivial=nontrivial, classes=classes, n=N,
        essential=["kept", "freedom:redundant-parentheses", "freedom:parentheses-omitted-by-precedence"]),
    Sub("afm-unrepresentable", check, gen=lambda tier: gen_for("afm", S.AFM, EF.emit_afm, negative=True, min_feats=2),
        nontrivial=nontrivial, classes=classes, n={"quick": 10, "thorough": 200}, essential=["kept"]),
    Sub("other-unrepresentable", check, gen=lambda tier: unrepresentable(), nontrivial=nontrivial, classes=classes,
        n={"quick": 10, "thorough": 200}),
    # documents of several hundred features (tens of kilobytes): readers that work block-wise or incrementally
    Sub("big-featureide", check, gen=lambda tier: gen_for("featureide", S.FEATUREIDE, EF.emit_featureide, max_feats=500, min_feats=250),
        nontrivial=nontrivial, classes=classes, n={"quick": 2, "thorough": 40}, shards={"quick": 8, "thorough": 16}),
    Sub("big-fama", check, gen=lambda tier: gen_for("fama", S.FAMA, EF.emit_fama, max_feats=500, min_feats=250),
        nontrivial=nontrivial, classes=classes, n={"quick": 2, "thorough": 40}, shards={"quick": 8, "thorough": 16}),
    Sub("big-glencoe", check, gen=lambda tier: gen_for("glencoe", S.GLENCOE_3P, EF.emit_glencoe, max_feats=500, min_feats=250),
        nontrivial=nontrivial, classes=classes, n={"quick": 2, "thorough": 40}, shards={"quick": 8, "thorough": 16}),
    Sub("big-afm", check, gen=lambda tier: gen_for("afm", S.AFM, EF.emit_afm, max_feats=200, min_feats=100),
        nontrivial=nontrivial, classes=classes, n={"quick": 2, "thorough": 40}, shards={"quick": 8, "thorough": 16}),
    Sub("glencoe", check, gen=lambda tier: gen_for("glencoe", S.GLENCOE_3P, EF.emit_glencoe), nontrivial=nontrivial,
        classes=classes, n=N,
        essential=["freedom:id-differs-from-name", "freedom:n-ary-term", "freedom:note-absent", "freedom:named-group-as-GENOR"]),
    Sub("corpus", check, enum=enum_corpus, nontrivial=nontrivial, classes=classes,
        exhaustive={"quick": False, "thorough": True}),
]

MANIFEST = {
    "technique": "property-based testing with four independent reference emitters (differential against the formats' definitions) + the shipped 1299-file corpus against an independent XML reading and Betty's statistics files",
    "level_text": "Generated reference models are rendered by independent emitters using each format's syntactic freedom and must be read as exactly that model (or rejected where unrepresentable); every corpus file is read and compared with an independent pull-parser reading and twelve independently recorded statistics. Sampling for the generated part, complete for the corpus (thorough). Also: documents of 100-500 features for all four formats, FaMa constraints naming undeclared features (must be rejected). A sample of every sub-check additionally runs in a `python -OO` child with the root logger at DEBUG.",
    "level_note": "Trusted: vf/emit_formats.py and vf/fama.py (my transcription of the formats), the Betty .statistics files, raw afmparser as validity filter, vf/logic.py.",
}
