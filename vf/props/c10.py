"""C10 - SPLOT and propositional exports denote exactly the model's configurations."""
import itertools

from hypothesis import strategies as st

from vf import build, interp, logic, semantics, strategies as S
from vf.oracle import Raised, lib
from vf.props import _bool
from vf.props.c18 import _cap_xor
from vf.runner import Sub

ID = "C10"
RULE = ("Cases are Boolean models of 1-9 features (boolean_any profile: mandatory/optional/alternative/or/mutex/[a,b] relations, "
        "several per parent; identifier names incl. the library's upper-case operator words; 0-4 logical constraints over the eight "
        "operators, depth <= 3). Each export is parsed by an independent interpreter (vf/interp.py) and compared with the brute-force "
        "configuration set over all 2^n selections. Non-trivial: model with a mutex or [a,b] group, or >= 2 relations under a parent, "
        "or a constraint using XOR/EQUIVALENCE/EXCLUDES or of depth >= 2; distinct = distinct canonical JSON.")
ASSUMPTIONS = ["SXFM semantics: root selected, child => parent, :m child <=> parent, :g [a,b] counts the selected children of a selected parent ('*' = n)",
               ".exp semantics: one formula per line, all conjoined; precedence not > and > or/XOR > -> > <->; extra variables are existentially quantified",
               "feature names are identifiers other than the target formats' own connectives (not, and, or, XOR), which those formats cannot quote"]

NAME_POOL = ["OR", "AND", "NOT", "IMPLIES", "REQUIRES", "EXCLUDES", "EQUIVALENCE", "Or", "nOt", "And", "xor"]


def names():
    return st.one_of(S.ident_names(6), st.sampled_from(NAME_POOL), S.dict_names(S._is_ident)).filter(lambda n: n not in ("not", "and", "or", "XOR"))


def _ctc(draw, nms, feats):
    return _cap_xor(draw(S.expr_of_depth(nms, logic.LOGICAL, draw(st.integers(0, 5)))), [2])


PROFILE = S.Profile(names(), single=("mandatory", "optional"), group=("alternative", "or", "mutex", "card", "card", "star"), layout="free",
                    abstract=True, ctc_max=4, ctc_expr=_ctc, simple_ops=logic.LOGICAL,
                    sanitize=lambda n: n + "_" if n in ("not", "and", "or", "XOR") else n)


def all_selections(nms):
    for bits in itertools.product((False, True), repeat=len(nms)):
        yield frozenset(n for n, b in zip(nms, bits) if b)


def check_export(which, model, text, out, selections=None):
    nms = build.names(model)
    if selections is not None:
        sel_list = [frozenset(x) for x in selections]
        valid = {x for x in sel_list if semantics.valid(model, x)}
    else:
        sel_list = None
        valid = set(semantics.configs(model))
    try:
        if which == "splot":
            root, clauses = interp.parse_sxfm(text)
            ids = interp.sxfm_ids(root)
            missing = [n for n in nms if n not in ids]
            accepts = lambda sel: interp.sxfm_accepts(root, clauses, sel)   # noqa: E731
        else:
            formulas = interp.parse_exp(text)
            vars_ = set()
            for f in formulas:
                interp.formula_vars(f, vars_)
            missing = [n for n in nms if n not in vars_]
            accepts = lambda sel: interp.exp_accepts(formulas, sel, nms)    # noqa: E731
        if missing:
            out.append((f"C10.{which}.feature-missing", f"{missing[:5]}"))
        wrong_accept = wrong_reject = None
        for sel in (sel_list if sel_list is not None else all_selections(nms)):
            a = accepts(sel)
            if a and sel not in valid and wrong_accept is None:
                wrong_accept = sorted(sel)
            if not a and sel in valid and wrong_reject is None:
                wrong_reject = sorted(sel)
        if wrong_accept is not None:
            out.append((f"C10.{which}.accepts-invalid-selection", f"{wrong_accept}"))
        if wrong_reject is not None:
            out.append((f"C10.{which}.rejects-valid-configuration", f"{wrong_reject}"))
    except interp.ParseError as err:
        out.append((f"C10.{which}.export-not-interpretable", str(err)[:200]))


def _poisoned(model):
    return {**model, "ctcs": list(model["ctcs"]) + [{"name": "Poison", "ast": ["GREATER", ["ADD", ["T", model["root"]["name"] + ".cost"], ["I", 1]], ["I", 3]]}]}


def check(case):
    from flamapy.metamodels.fm_metamodel.transformations import SPLOTWriter
    from flamapy.metamodels.fm_metamodel.transformations.pl_writer import PLWriter
    out = []
    model = case["model"] if "selections" in case else case
    for which, cls in (("splot", SPLOTWriter), ("pl", PLWriter)):
        # an export that fails half-way (a constraint the format cannot express) must leave nothing behind that the
        # next export of a healthy model would pick up
        lib(lambda: cls(None, build.build(_poisoned(model))).transform())
        if "selections" in case and which == "pl" and len(build.names(model)) > 15 and not case.get("pl"):
            continue      # the propositional export spells a cardinality group out combination by combination
        fm = build.build(model)
        text = lib(lambda: cls(None, fm).transform())
        if isinstance(text, Raised):
            out.append((f"C10.{which}.writer-raised:{text.label}", text.text))
            continue
        from vf.runner import _deep
        with _deep():        # the interpreter walks long operator chains recursively (harness side only)
            check_export(which, model, text, out, case.get("selections") if "selections" in case else None)
    return out


def nontrivial(case):
    if "selections" in case:
        return True
    if _bool.structure_nontrivial(case):
        return True
    for c in case["ctcs"]:
        if {"XOR", "EQUIVALENCE", "EXCLUDES"} & set(logic.ops_of(c["ast"])) or build.expr_depth(c["ast"]) >= 2:
            return True
    return False


def classes(case):
    if "selections" in case:
        r = next(r for r, _ in build.iter_rels(case["model"]["root"]) if len(r["children"]) >= 10)
        return {"wide-group", "bounds:text-order-differs" if str(r["min"]) > str(r["max"]) else "bounds:plain",
                "pl-too" if len(build.names(case["model"])) <= 15 or case.get("pl") else "splot-only"}
    out = _bool.structure_classes(case)
    for c in case["ctcs"]:
        for o in set(logic.ops_of(c["ast"])):
            out.add("op:" + o)
    if any(n in NAME_POOL for n in build.names(case)):
        out.add("operator-word-name")
    return out


SUBS = [
    Sub("wide-groups", check, gen=lambda tier: st.one_of(_bool.wide_group_cases(max_members=24), _bool.wide_group_cases(max_members=10)),
        nontrivial=nontrivial, classes=classes, n={"quick": 7, "thorough": 100},
        essential=["bounds:text-order-differs", "pl-too"]),
    # the propositional export of a group of 16-17 members (tens of thousands of combinations, megabytes of text):
    # few cases, few selections - bounds in particular arithmetic relationships to the number of members
    Sub("pl-wide-groups", check, gen=lambda tier: _bool.wide_group_cases(min_members=16, max_members=17, few_selections=True, special_bounds=True).map(
        lambda c: {**c, "pl": True}), nontrivial=nontrivial, classes=classes,
        n={"quick": 2, "thorough": 6}, shards={"quick": 8, "thorough": 16}),
    Sub("constraint-shapes", check, enum=_bool.enum_constraint_shapes, nontrivial=nontrivial, classes=classes,
        exhaustive=False),
    Sub("exports", check, gen=lambda tier: S.model_specs(PROFILE, 1, 9), nontrivial=nontrivial, classes=classes,
        n={"quick": 800, "thorough": 6000},
        essential=["rel:mutex", "rel:cardinal", "multi-relations-parent", "op:XOR", "op:EQUIVALENCE", "op:EXCLUDES",
                   "operator-word-name"]),
]

MANIFEST = {
    "technique": "property-based testing with exports treated as programs: independent SXFM and propositional-formula interpreters evaluated over all 2^n selections against an independent brute-force configuration enumerator",
    "level_text": "For every generated Boolean model (<= 9 features) both exports are interpreted under the target format's semantics and must accept exactly the brute-force configuration set; exhaustive over selections per model, sampling over models. Also: groups of 10-24 members (propositional export: 10 and 16-17 members) judged on boundary selections carried by the case, every constraint tree of two exhaustive families on a fixed three-feature model, and a failing export before the real one. A sample of every sub-check additionally runs in a `python -OO` child with the root logger at DEBUG.",
    "level_note": "Trusted: vf/interp.py (my transcription of SXFM and .exp semantics), vf/semantics.py, vf/logic.py.",
}
