"""C05 - JSON round trip returns the same model, at any number of cycles."""
import json

from hypothesis import strategies as st

from vf import build, logic, roundtrip as rt, strategies as S
from vf.oracle import Raised, Scratch, lib
from vf.props.c03 import rel_class
from vf.runner import Sub

ID = "C05"
RULE = ("Cases are models of the JSON fragment (1-14 Boolean features with arbitrary Unicode names incl. spaces, quotes, "
        "backslashes, dots, non-BMP; abstract flags; attributes with JSON values None/bool/int/float/str/list/dict; all six "
        "relation kinds, several per parent, [a,b] groups; 0-4 named constraints over the eight logical operators to depth 4) "
        "plus a cycle count n in 2..4. Non-trivial: a name outside [A-Za-z0-9_]+, or an attribute, or an XOR constraint, or a "
        "mutex/[a,b] relation; distinct = distinct canonical JSON.")
ASSUMPTIONS = ["names never start with an apostrophe (library-wide string-literal marker) and contain no surrogates/control characters",
               "child/relation order is not compared after the first cycle against the spec (no order promised); between cycles the observation must be identical"]


def check(case):
    from flamapy.metamodels.fm_metamodel.transformations import JSONReader, JSONWriter
    model = case["model"]
    fm0 = build.build(model)
    snap0 = build.snapshot(fm0)
    with Scratch() as sc:
        out, texts, models, obss = rt.run_cycles(
            fm0, lambda p, m: JSONWriter(p, m).transform(), lambda p: JSONReader(p).transform(),
            sc, "json", case["cycles"], "C05")
        if build.snapshot(fm0) != snap0:
            out.append(("C05.writer-modified-model", ""))
        if not models:
            return out
        obs = obss[0]
        out += rt.wellformed(obs, "C05")
        out += rt.same_tree(model, obs, "C05")
        out += rt.compare_flags_attrs(model, obs, "C05", check_types=False, check_fcard=False)
        # named constraints, structurally equal, in order
        got = rt.constraint_exprs(models[0], "C05", out)
        want = model["ctcs"]
        if [c.name for c in models[0].ctcs] != [c["name"] for c in want]:
            out.append(("C05.ctc-names", f"expected {[c['name'] for c in want]!r:.120}, got {[c.name for c in models[0].ctcs]!r:.120}"))
        elif any(g is None or logic.canon(g) != logic.canon(w["ast"]) for g, w in zip(got, want)):
            i = next(i for i, (g, w) in enumerate(zip(got, want)) if g is None or logic.canon(g) != logic.canon(w["ast"]))
            out.append(("C05.ctc-ast", f"#{i}: expected {logic.canon(want[i]['ast'])}, got {logic.canon(got[i]) if got[i] else None}"))
        # parse_json on the loaded object == reading the file
        # (the file at the shared path now holds the last cycle's text; cycle 1's bytes are in texts[0])
        loaded = lib(json.loads, texts[0].decode("utf-8"))
        if isinstance(loaded, Raised):
            out.append(("C05.file-not-json", loaded.text))
        else:
            m2 = lib(JSONReader.parse_json, loaded)
            if isinstance(m2, Raised):
                out.append((f"C05.parse_json-raised:{m2.label}", m2.text))
            elif build.observe(m2) != obs:
                out.append(("C05.parse_json-differs-from-file", ""))
    return out


@st.composite
def cases(draw, max_feats=14):
    m_ = draw(S.model_specs(S.JSON, 1, max_feats))
    if draw(st.integers(0, 9)) == 0:
        S.concatenation_twins(draw, m_)
    return {"model": m_, "cycles": draw(st.integers(3, 4))}


def _plain(n):
    return all(ch in S.IDENT_REST for ch in n)


def nontrivial(case):
    m = case["model"]
    for f, _ in build.iter_feats(m["root"]):
        if not _plain(f["name"]) or f["attrs"]:
            return True
    for r, _ in build.iter_rels(m["root"]):
        if rel_class(r["min"], r["max"], len(r["children"])) in ("mutex", "cardinal"):
            return True
    return any("XOR" in logic.ops_of(c["ast"]) for c in m["ctcs"])


def classes(case):
    m = case["model"]
    out = set()
    for f, _ in build.iter_feats(m["root"]):
        if not _plain(f["name"]):
            out.add("odd-name")
        if f["attrs"]:
            out.add("attrs")
        if f["abstract"]:
            out.add("abstract")
    for r, _ in build.iter_rels(m["root"]):
        out.add("rel:" + rel_class(r["min"], r["max"], len(r["children"])))
    for c in m["ctcs"]:
        for o in set(logic.ops_of(c["ast"])):
            out.add("op:" + o)
    if not m["ctcs"]:
        out.add("no-ctcs")
    return out


@st.composite
def big_cases(draw):
    """Models of several hundred features (files of tens of kilobytes): block-wise or incremental readers/writers."""
    return {"model": draw(S.model_specs(S.JSON, 60, 120, many_ctcs=draw(st.booleans()))), "cycles": 3}


SUBS = [
    Sub("big-models", check, gen=lambda tier: big_cases(), nontrivial=lambda case: True, classes=lambda case: {"big-model"},
        n={"quick": 2, "thorough": 30}, shards={"quick": 8, "thorough": 16}),
    Sub("roundtrip", check, gen=lambda tier: cases(), nontrivial=nontrivial, classes=classes,
        n={"quick": 300, "thorough": 5000},
        essential=["odd-name", "attrs", "abstract", "rel:mutex", "rel:cardinal", "op:XOR", "op:EXCLUDES", "op:NOT"]),
]

MANIFEST = {
    "technique": "property-based round-trip testing: Hypothesis model generator for the JSON fragment, n write/read cycles, oracle = the generating spec (tree, flags, typed attribute values, named constraint trees) plus byte/observation idempotence",
    "level_text": "Generated models with arbitrary Unicode names and JSON attribute values are written and read 2-4 times; cycle 1 is compared with the spec, later cycles with the previous one byte for byte, and parse_json with the file reader. Sampling only. Also: models of 60-120 features with up to 120 constraints, wide groups, shared-node constraint trees, record-shaped and escape-like attribute values, and the same-path decoys / relative paths / other file system of C01. A sample of every sub-check additionally runs in a `python -OO` child with the root logger at DEBUG.",
    "level_note": "Trusted: vf/build.py builder/observer, vf/roundtrip.py comparisons, Hypothesis.",
}
