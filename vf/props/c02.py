"""C02 - every reader returns a well-formed feature tree with usable constraints."""
import os

from hypothesis import strategies as st

from vf import afm_raw, build, emit_formats as EF, emit_uvl, fama, logic, roundtrip as rt, strategies as S, uvl_raw
from vf.oracle import Raised, Scratch, lib
from vf.props import c04
from vf.runner import Sub

ID = "C02"
RULE = ("Cases: for each of the six readers (UVL, AFM, JSON, Glencoe, FeatureIDE, FaMa XML) documents from two sources - (a) this "
        "library's writer output for generated models of the matching fragment (FaMa XML has no writer) and (b) the independent "
        "reference emitters of C04/C09 - plus a slice of the shipped FaMa corpus (quick: <=200-feature files; thorough: all). "
        "Constraints contain NOT at several depths. The returned model is checked by object identity for the tree invariants and "
        "each constraint for the consumable form, get_features == the written names, and traversal without exceptions. "
        "Non-trivial: document with a constraint containing NOT, or a tree of depth >= 3, or >= 1 attribute; distinct = distinct JSON.")
ASSUMPTIONS = ["documents the reader rejects are not C02's business (C01, C04-C09 decide acceptance); only accepted documents are judged",
               "names inside aggregate calls are not demanded from get_features; core pretty_str is not called on one-argument aggregates (dependency)"]

WRITERS = {"uvl": ("UVLWriter", "UVLReader", "uvl", S.UVL), "afm": ("AFMWriter", "AFMReader", "afm", S.AFM),
           "json": ("JSONWriter", "JSONReader", "json", S.JSON), "glencoe": ("GlencoeWriter", "GlencoeReader", "gfm.json", S.GLENCOE),
           "featureide": ("FeatureIDEWriter", "FeatureIDEReader", "xml", S.FEATUREIDE)}
READERS = {"uvl": "UVLReader", "afm": "AFMReader", "json": "JSONReader", "glencoe": "GlencoeReader",
           "featureide": "FeatureIDEReader", "fama": "XMLReader"}
EXT = {"uvl": "uvl", "afm": "afm", "json": "json", "glencoe": "gfm.json", "featureide": "xml", "fama": "xml"}


def check(case):
    import flamapy.metamodels.fm_metamodel.transformations as T
    out = []
    rd = case["reader"]
    pid = f"C02.{rd}"
    with Scratch() as sc:
        if case["source"] == "corpus":
            path = os.path.join(fama.CORPUS, case["corpus"])
        elif case["source"] == "writer":
            path = sc.path("doc." + EXT[rd])
            fm0 = build.build(case.get("foreign_model") or case["model"])
            w = lib(lambda: getattr(T, WRITERS[rd][0])(path, fm0).transform())
            if isinstance(w, Raised):
                return out
        else:
            if rd == "afm" and afm_raw.strict_errors(case["text"]):
                return out
            if rd == "uvl" and any(uvl_raw.strict_errors(case["text"])):
                return out
            path = sc.path("doc." + EXT[rd])
            with open(path, "w", encoding="utf-8", newline="") as fh:
                fh.write(case["text"])
        reader = lib(lambda: getattr(T, READERS[rd])(path))
        fm = lib(lambda: reader.transform())
        fm_again = lib(lambda: reader.transform()) if not isinstance(fm, Raised) else None
    if isinstance(fm, Raised):
        return out
    obs = build.observe(fm)
    # (a document written from a model outside the format's fragment, or an odd document, may legitimately come back
    # with a repeated name - neither C02 nor C04 claims unique names for those; the tree claims stay)
    lenient = bool(case.get("foreign_model") or case.get("odd"))
    out += [(k, d) for k, d in rt.wellformed(obs, pid) if not (lenient and k.endswith("duplicate-names"))]
    # the same reader object asked again must return a proper tree again (and the same model)
    # (a reader that refuses a second call is not judged here - C02 speaks about the models that are returned)
    if fm_again is not None and not isinstance(fm_again, Raised):
        obs2 = build.observe(fm_again)
        out += [(k.replace(".wf.", ".wf-second-transform."), d) for k, d in rt.wellformed(obs2, pid)
                if not (lenient and k.endswith("duplicate-names"))]
        out += [(k.replace(".wf.", ".wf-first-model-after-second-transform."), d)
                for k, d in rt.wellformed(build.observe(fm), pid) if not (lenient and k.endswith("duplicate-names"))]
    exprs = rt.usable_constraints(fm, pid, out)
    if not obs["problems"] and len(obs["features"]) <= 400:
        operations_traverse(fm, pid, out)
    if case.get("model") is not None and None not in exprs:
        want = sorted(sorted(logic.refs(c["ast"])) for c in case["model"]["ctcs"] if not logic.is_aggregation(c["ast"]))
        got = []
        for c, e in zip(fm.ctcs, exprs):
            if logic.is_aggregation(e):
                continue
            g = lib(c.get_features)
            if not isinstance(g, Raised):
                got.append(sorted(g))
        if sorted(got) != want and len(fm.ctcs) == len(case["model"]["ctcs"]):
            out.append((f"{pid}.ctc.get_features-vs-document", f"expected {want[:4]}, got {sorted(got)[:4]}"))
    return out


def operations_traverse(fm, pid, out):
    """'...every writer and operation can traverse it': the analysis operations and the constraint utilities
    must work on whatever a reader returns (they only need the tree and the constraint form)."""
    import flamapy.metamodels.fm_metamodel.operations as ops
    from flamapy.metamodels.fm_metamodel.models.feature_model import split_constraint
    heavy = []
    for c in fm.ctcs:
        try:
            e = build.node_to_expr(c.ast.root)
        except ValueError:
            continue
        heavy.append(logic.is_logical(e) and logic.clause_cost(e) is None)
    for name in ("FMAtomicSets", "FMAverageBranchingFactor", "FMCoreFeatures", "FMCountLeafs",
                 "FMEstimatedConfigurationsNumber", "FMLeafFeatures", "FMMaxDepthTree", "FMMetrics", "FMVariationPoints"):
        if name == "FMMetrics" and any(heavy):
            continue       # clause conversion of this constraint is exponential (hours): not a question of traversal
        got = lib(lambda name=name: getattr(ops, name)().execute(fm).get_result())
        if isinstance(got, Raised):
            out.append((f"{pid}.operation-cannot-traverse:{name}:{got.label}", got.text))
    for c, hv in zip(fm.ctcs, heavy + [False] * len(fm.ctcs)):
        if hv:
            continue
        if c.is_logical_constraint() if not isinstance(lib(c.is_logical_constraint), Raised) else False:
            got = lib(split_constraint, c)
            if isinstance(got, Raised):
                out.append((f"{pid}.split_constraint-cannot-traverse:{got.label}", got.text))
                break


def writer_cases(rd, min_feats=1):
    @st.composite
    def cases(draw):
        if draw(st.integers(0, 3)) == 0:
            # 'documents produced by this library's writers from ARBITRARY well-formed models': a model outside the
            # format's fragment (single children with [1..2], typed features, several groups per parent ...).  The
            # writer may refuse it and the reader may reject what was written - but what a reader accepts must be a tree
            from vf.props import c03
            return {"reader": rd, "source": "writer", "model": None,
                    "foreign_model": draw(S.model_specs(draw(st.sampled_from([c03.ANY, S.UVL, S.JSON])), min_feats, 8, allow_wide=False))}
        return {"reader": rd, "source": "writer", "model": draw(S.model_specs(WRITERS[rd][3], min_feats, 10))}
    return cases()


def emitter_cases(rd):
    @st.composite
    def cases(draw):
        if rd == "uvl":
            model = draw(S.model_specs(c04.PROFILE, 1, 10))
            text, labels = emit_uvl.emit(draw, model)
        elif rd == "featureide":
            model = draw(S.model_specs(S.FEATUREIDE, 1, 10))
            text, labels = EF.emit_featureide(draw, model)
        elif rd == "fama":
            model = draw(S.model_specs(S.FAMA, 1, 10))
            text, labels = EF.emit_fama(draw, model)
        elif rd == "afm":
            model = draw(S.model_specs(S.AFM, 2, 10))
            text, labels = EF.emit_afm(draw, model)
        else:
            model = draw(S.model_specs(S.GLENCOE_3P, 1, 10))
            text, labels = EF.emit_glencoe(draw, model)
        return {"reader": rd, "source": "emitter", "model": model, "text": text}
    return cases()


def unrepresentable_cases():
    from vf.props import c09

    @st.composite
    def cases(draw):
        if draw(st.integers(0, 3)) == 0:
            # a FaMa relation carrying two <cardinality> elements: whatever the reader makes of it, an accepted
            # document must come back as a proper tree
            import re
            model = draw(S.model_specs(S.FAMA, 3, 8))
            text, _ = EF.emit_fama(draw, model)
            cards = list(re.finditer(r"<cardinality[^>]*/>", text))
            if cards:
                m_ = draw(st.sampled_from(cards))
                extra = f'<cardinality min="{draw(st.integers(0, 3))}" max="{draw(st.integers(3, 5))}"/>'
                text = text[:m_.end()] + extra + text[m_.end():]
            return {"reader": "fama", "source": "emitter", "model": None, "text": text, "odd": True}
        c = draw(c09.unrepresentable())
        return {"reader": c["format"], "source": "emitter", "model": None, "text": c["text"], "odd": True}
    return cases()


def enum_corpus(tier, seed):
    files = fama.corpus_files(None if tier == "thorough" else 200)
    if tier != "thorough":
        files = files[int(seed) % 10::10]
    return [{"reader": "fama", "source": "corpus", "corpus": p} for p in files]


def _not_depth(e, d=0):
    if e[0] in logic.LEAF:
        return -1
    best = d if e[0] == "NOT" else -1
    for s in e[1:]:
        best = max(best, _not_depth(s, d + 1))
    return best


def _depth(m):
    best = 0

    def rec(f, d):
        nonlocal best
        best = max(best, d)
        for r in f["rels"]:
            for c in r["children"]:
                rec(c, d + 1)
    rec(m["root"], 0)
    return best


def nontrivial(case):
    if case["source"] == "corpus" or case.get("odd") or case.get("foreign_model"):
        return True
    m = case["model"]
    if any(_not_depth(c["ast"]) >= 0 for c in m["ctcs"]) or _depth(m) >= 3:
        return True
    return any(f["attrs"] for f, _ in build.iter_feats(m["root"]))


def classes(case):
    if case["source"] == "corpus":
        return {"corpus"}
    if case.get("odd"):
        return {"unrepresentable-construct"}
    if case.get("foreign_model"):
        return {"foreign-model"}
    m = case["model"]
    out = set()
    for c in m["ctcs"]:
        d = _not_depth(c["ast"])
        if d >= 0:
            out.add("not-at-depth:" + str(min(d, 3)))
    if any(f["attrs"] for f, _ in build.iter_feats(m["root"])):
        out.add("attrs")
    if _depth(m) >= 3:
        out.add("depth>=3")
    return out


N = {"quick": 25, "thorough": 800}
NOT_CLASSES = ["not-at-depth:0", "not-at-depth:1", "not-at-depth:2"]
SUBS = [Sub(f"{rd}-writer", check, gen=(lambda tier, rd=rd: writer_cases(rd, 2 if rd == "afm" else 1)), nontrivial=nontrivial,
            classes=classes, n=N, essential=NOT_CLASSES) for rd in ("uvl", "afm", "json", "glencoe", "featureide")]
SUBS += [Sub(f"{rd}-emitter", check, gen=(lambda tier, rd=rd: emitter_cases(rd)), nontrivial=nontrivial, classes=classes, n=N,
             essential=(NOT_CLASSES if rd != "fama" else []), min_nontrivial=0.0 if rd == "fama" else 0.01)
         for rd in ("uvl", "afm", "glencoe", "featureide", "fama")]
SUBS.append(Sub("documents-with-unrepresentable-constructs", check, gen=lambda tier: unrepresentable_cases(),
                nontrivial=nontrivial, classes=classes, n={"quick": 10, "thorough": 200}))
SUBS.append(Sub("fama-corpus", check, enum=enum_corpus, nontrivial=nontrivial, classes=classes,
                exhaustive={"quick": False, "thorough": True}))

MANIFEST = {
    "technique": "property-based testing over six readers x two document sources (library writers, independent reference emitters) + corpus slice; oracle = identity-based tree invariants and constraint-form/usability predicates on the returned model",
    "level_text": "Validity predicate over every model a reader returns: one parentless root, each feature reached once, relation/child/attribute back-links by object identity, unique names, unary-left/binary-both constraint form, get_features equal to the written names, traversal helpers do not raise. Sampling over generated documents; complete over the corpus in thorough. Also: documents the readers may accept although they contain odd constructs (unknown rule elements, a second <cardinality> element) - whatever is returned must still be a proper tree. A sample of every sub-check additionally runs in a `python -OO` child with the root logger at DEBUG.",
    "level_note": "Trusted: vf/build.py observer, vf/roundtrip.py predicates, the emitters of C04/C09 as document sources.",
}
