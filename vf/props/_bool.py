"""Shared domain for C13-C15: exhaustive small shapes + random boolean_any models."""
from hypothesis import strategies as st

from vf import build, shapes, strategies as S
from vf.props.c03 import rel_class


def enum_shapes(tier, seed):
    if tier == "thorough":
        specs = shapes.all_specs(7)
        specs += shapes.slice_specs(8, 20000, int(seed))
        return specs
    return shapes.all_specs(5)


def random_models(with_ctcs, max_feats=12):
    """boolean_any models; one case in four also has [a..*] relations (max = -1, as the UVL reader
    produces for '*')."""
    from hypothesis import strategies as st_
    base = st_.one_of(S.model_specs(S.BOOLEAN_ANY, 1, max_feats, with_ctcs=with_ctcs),
                      S.model_specs(S.BOOLEAN_ANY, 1, max_feats, with_ctcs=with_ctcs),
                      S.model_specs(S.BOOLEAN_ANY, 1, max_feats, with_ctcs=with_ctcs),
                      S.model_specs(S.BOOLEAN_STAR, 1, max_feats, with_ctcs=with_ctcs))
    return base.map(
        lambda m: m if (with_ctcs and m["ctcs"]) or not with_ctcs else _force_ctc(m))


def _force_ctc(m):
    names = build.names(m)
    m = dict(m)
    m["ctcs"] = [{"name": "C0", "ast": ["OR", ["T", names[-1]], ["NOT", ["T", names[len(names) // 2]]]]}]
    return m


def structure_nontrivial(m):
    depth = 0

    def d(f, k):
        nonlocal depth
        depth = max(depth, k)
        for r in f["rels"]:
            for c in r["children"]:
                d(c, k + 1)
    d(m["root"], 0)
    if depth >= 3:
        return True
    for f, _ in build.iter_feats(m["root"]):
        if len(f["rels"]) >= 2:
            return True
        for r in f["rels"]:
            if r["max"] == -1 or rel_class(r["min"], r["max"], len(r["children"])) in ("mutex", "cardinal", "other1"):
                return True
    return False


def structure_classes(m):
    out = set()
    for r, _ in build.iter_rels(m["root"]):
        out.add("rel:star" if r["max"] == -1 else "rel:" + rel_class(r["min"], r["max"], len(r["children"])))
    for f, _ in build.iter_feats(m["root"]):
        if len(f["rels"]) >= 2:
            out.add("multi-relations-parent")
    if m["ctcs"]:
        out.add("with-ctcs")
    if len(build.names(m)) == 1:
        out.add("root-only")
    return out


# ---- one operation object per process, executed on every case (C19's concern at scale): its result must equal
# the result of a fresh object - exposes state kept on the object between executions
_LONG_LIVED = {}


def long_lived(cls):
    if cls.__name__ not in _LONG_LIVED:
        _LONG_LIVED[cls.__name__] = cls()
    return _LONG_LIVED[cls.__name__]
