"""Shared domain for C13-C15: exhaustive small shapes + random boolean_any models."""
from hypothesis import strategies as st

from vf import build, shapes, strategies as S
from vf.props.c03 import rel_class


def enum_shapes(tier, seed):
    if tier == "thorough":
        specs = shapes.all_specs(7)
        specs += shapes.slice_specs(8, 20000, int(seed))
        return specs
    return shapes.all_specs(5)


def random_models(with_ctcs, max_feats=12):
    """boolean_any models; one case in four also has [a..*] relations (max = -1, as the UVL reader
    produces for '*')."""
    from hypothesis import strategies as st_
    base = st_.one_of(S.model_specs(S.BOOLEAN_ANY, 1, max_feats, with_ctcs=with_ctcs),
                      S.model_specs(S.BOOLEAN_ANY, 1, max_feats, with_ctcs=with_ctcs),
                      S.model_specs(S.BOOLEAN_ANY, 1, max_feats, with_ctcs=with_ctcs),
                      S.model_specs(S.BOOLEAN_STAR, 1, max_feats, with_ctcs=with_ctcs))
    return base.map(
        lambda m: m if (with_ctcs and m["ctcs"]) or not with_ctcs else _force_ctc(m))


def _force_ctc(m):
    names = build.names(m)
    m = dict(m)
    m["ctcs"] = [{"name": "C0", "ast": ["OR", ["T", names[-1]], ["NOT", ["T", names[len(names) // 2]]]]}]
    return m


def structure_nontrivial(m):
    depth = 0

    def d(f, k):
        nonlocal depth
        depth = max(depth, k)
        for r in f["rels"]:
            for c in r["children"]:
                d(c, k + 1)
    d(m["root"], 0)
    if depth >= 3:
        return True
    for f, _ in build.iter_feats(m["root"]):
        if len(f["rels"]) >= 2:
            return True
        for r in f["rels"]:
            if r["max"] == -1 or rel_class(r["min"], r["max"], len(r["children"])) in ("mutex", "cardinal", "other1"):
                return True
    return False


def structure_classes(m):
    out = set()
    for r, _ in build.iter_rels(m["root"]):
        out.add("rel:star" if r["max"] == -1 else "rel:" + rel_class(r["min"], r["max"], len(r["children"])))
    for f, _ in build.iter_feats(m["root"]):
        if len(f["rels"]) >= 2:
            out.add("multi-relations-parent")
    if m["ctcs"]:
        out.add("with-ctcs")
    if len(build.names(m)) == 1:
        out.add("root-only")
    return out


# ---- one operation object per process, executed on every case (C19's concern at scale): its result must equal
# the result of a fresh object - exposes state kept on the object between executions
_LONG_LIVED = {}


def long_lived(cls):
    if cls.__name__ not in _LONG_LIVED:
        _LONG_LIVED[cls.__name__] = cls()
    return _LONG_LIVED[cls.__name__]


def enum_constraint_shapes(tier, seed):
    """A fixed model (root with three optional children A, B, C) carrying one constraint from an exhaustive family:
    every tree of depth <= 2 over NOT + the seven binary operators on {A,B,C} (33 399) and every NOT/AND/OR tree of
    depth <= 3 on {A,B} (182 712).  Thorough: all of the first family and a seeded sixth of the second; quick:
    seeded slices (1/16 and 1/96).  Decides the constraint-translation half of an export on shapes random trees rarely hit."""
    from vf.props import c18
    d2 = c18.all_trees(2)
    d3 = c18._trees_over(3, ["A", "B"], ["AND", "OR"])
    s = int(seed)
    if tier == "thorough":
        trees = d2 + d3[s % 6::6]
    else:
        trees = d2[s % 16::16] + d3[s % 96::96]
    kids = lambda: [build.rel(0, 1, [build.feat(n)]) for n in ("A", "B", "C")]   # noqa: E731
    return [{"root": build.feat("R", kids()), "ctcs": [{"name": "K", "ast": e}]} for e in trees]


def edit_histories(profile, max_feats=10, with_ctcs=False, max_edits=3, formula_edits=False):
    """{"model": m, "edits": [m1, m2, ...]}: m_i+1 is a single-point structural edit of m_i (add a feature, remove
    a leaf, change a cardinality, move a sub-tree, split / merge relations, add / remove a constraint).  The check
    applies the edits IN PLACE to one library object (build.morph) and analyses it after every step."""
    from vf.props import c20

    @st.composite
    def gen(draw):
        m = draw(S.model_specs(profile, 1, max_feats, with_ctcs=with_ctcs))
        only = c20.STRUCTURAL if with_ctcs else tuple(k for k in c20.STRUCTURAL if not k.endswith("-ctc"))
        if formula_edits:
            only = only + ("operator-same-kind", "operand-existing", "ctc-copy")
        edits, cur = [], m
        for _ in range(draw(st.integers(1, max_edits))):
            label, cur = c20.apply_edit(draw, cur, only=only)
            present = set(build.names(cur))        # a constraint naming a removed feature goes with it
            cur["ctcs"] = [c for c in cur["ctcs"] if build.expr_refs(c["ast"]) <= present]
            edits.append({"label": label, "model": cur})
        return {"model": m, "edits": edits}
    return gen()


def morph_checked(fm, spec):
    """build.morph + a harness self-check: the edited object must observe exactly as the edited spec."""
    from vf import roundtrip as rt
    build.morph(fm, spec)
    obs = build.observe(fm)
    problems = rt.wellformed(obs, "harness") + rt.same_tree(spec, obs, "harness")
    if problems:
        raise AssertionError(f"harness: build.morph did not produce the edited model: {problems[:2]}")
    return fm


def large_models(biggest=300):
    """Models beyond brute force: 1-4 wide groups under the root (2-12, 40-90 or 250-`biggest` leaves; binomials above
    2^53, sizes above CPython's small-integer cache), some children with a small subtree; bounds 0 <= lo <= hi <= k
    with hi >= 1, or hi = * ."""
    @st.composite
    def gen(draw):
        n_groups = draw(st.integers(1, 4))
        rels = []
        idx = [0]

        def leaf():
            idx[0] += 1
            return build.feat(f"L{idx[0]}")
        for _ in range(n_groups):
            k = draw(st.one_of(st.integers(2, 12), st.integers(40, 90), st.integers(250, biggest)))
            lo = draw(st.one_of(st.integers(0, k), st.sampled_from([0, 1, k - 1, k, k])))
            hi = draw(st.one_of(st.integers(max(lo, 1), k), st.just(k), st.just(-1)))
            kids = [leaf() for _ in range(k)]
            # some children get a small subtree, several of them with equal and with different shapes (the counts
            # of the children then repeat non-adjacently: c, d, c)
            for j in draw(st.lists(st.integers(0, k - 1), max_size=6, unique=True)):
                shape = draw(st.integers(0, 3))
                if shape == 0:
                    kids[j]["rels"].append(build.rel(0, 1, [leaf(), leaf()]))
                elif shape == 1:
                    kids[j]["rels"].append(build.rel(0, 1, [leaf()]))
                elif shape == 2:
                    kids[j]["rels"].append(build.rel(1, 1, [leaf()]))
                    kids[j]["rels"].append(build.rel(0, 1, [leaf()]))
                    kids[j]["rels"].append(build.rel(0, 1, [leaf()]))
                else:
                    kids[j]["rels"].append(build.rel(1, 2, [leaf(), leaf()]))
            rels.append(build.rel(lo, hi, kids))
        if draw(st.integers(0, 2)) == 0:
            # many single relations under one parent (33-70), some children with a mandatory / optional child of their own
            for _ in range(draw(st.integers(33, 70))):
                c = leaf()
                t = draw(st.integers(0, 5))
                if t == 0:
                    c["rels"].append(build.rel(1, 1, [leaf()]))
                elif t == 1:
                    c["rels"].append(build.rel(0, 1, [leaf()]))
                    c["rels"].append(build.rel(1, 1, [leaf()]))
                rels.append(build.rel(draw(st.integers(0, 1)), 1, [c]))
            if draw(st.booleans()):
                order = draw(st.permutations(list(range(len(rels)))))
                rels = [rels[i] for i in order]
        root = build.feat("Root", rels)
        ctcs = []
        if draw(st.integers(0, 2)) == 0:
            ctcs = [{"name": "T", "ast": ["OR", ["T", "L1"], ["NOT", ["T", "L1"]]]}]
        return {"root": root, "ctcs": ctcs}
    return gen()


def large_classes(case):
    out = set()
    for r, _ in build.iter_rels(case["root"]):
        if len(r["children"]) >= 57:
            out.add("group>=57")
        if len(r["children"]) >= 257:
            out.add("group>=257")
        if r["max"] == -1:
            out.add("rel:star")
        if r["min"] == len(r["children"]) and len(r["children"]) >= 2:
            out.add("forced-by-group")
    if case["ctcs"]:
        out.add("with-tautology")
    if len(case["root"]["rels"]) >= 33:
        out.add("relations>=33")
    return out


def forced_links(model):
    """Constraint-free tree in which every feature is selectable (all max >= 1 or *): child <=> parent exactly when
    the relation demands all of its members (min == number of children).  Returns (always_selected_names,
    component_id_by_name) - the exact always-selected set and the exact classes of always-co-selected features."""
    comp, always = {}, set()
    stack = [(model["root"], True, 0)]
    next_id = [1]
    comp[model["root"]["name"]] = 0
    while stack:
        f, core, cid = stack.pop()
        if core:
            always.add(f["name"])
        for r in f["rels"]:
            forced = r["min"] == len(r["children"])
            for c in r["children"]:
                if forced:
                    comp[c["name"]] = cid
                    stack.append((c, core, cid))
                else:
                    comp[c["name"]] = next_id[0]
                    stack.append((c, False, next_id[0]))
                    next_id[0] += 1
    return always, comp


def constraint_list_models(max_feats=10):
    """boolean_any models whose constraint section is a list of simple forms between features related in the tree."""
    return st.one_of(S.model_specs(S.BOOLEAN_ANY, 2, max_feats, ctc_mode="structured"),
                     S.model_specs(S.BOOLEAN_STAR, 2, max_feats, ctc_mode="structured"))


def run_with_edits(case, check_fm, pid):
    """check_fm(fm, model, out) on the model and then, for edit histories, on the same object after each in-place
    edit (the claims are about the model as it is now)."""
    model = case["model"] if "edits" in case else case
    out = []
    fm = build.build(model)
    check_fm(fm, model, out)
    for step, ed in enumerate(case.get("edits", []) if "edits" in case else []):
        morph_checked(fm, ed["model"])
        sub_out = []
        check_fm(fm, ed["model"], sub_out)
        out += [(k.replace(pid + ".", pid + ".after-in-place-edit.", 1), f"step {step} ({ed['label']}): {d}") for k, d in sub_out]
    return out


def edit_classes(case):
    return {"edit:" + e["label"] for e in case["edits"]}


@st.composite
def wide_group_cases(draw, names_strategy=None, max_members=24, sanitize=None, group_alone=False, min_members=10,
                     few_selections=False, special_bounds=False):
    """A small model with one group of 10..max_members leaves under the root or under an optional child, bounds
    drawn so that textual and numeric order often disagree ([2,10], [9,11]) - too many features for 2^n
    enumeration, so the case carries its own selections: for every boundary count (min-1, min, max, max+1, 0, all)
    the first and a drawn subset of that many members, with and without the features above the group."""
    k = draw(st.integers(min_members, max_members))
    how = 1 if special_bounds else draw(st.integers(0, 3))
    if how == 0 and k >= 10:
        lo, hi = draw(st.integers(2, 9)), draw(st.integers(10, k))
    elif how == 1:
        # bounds in a particular arithmetic relationship to the number of members: min + max == n, min == max,
        # max == n - 1, min == n / 2 ...
        lo = draw(st.integers(1, k // 2))
        hi = draw(st.sampled_from([k - lo, lo, k - 1, k, lo + 1, 2 * lo if 2 * lo <= k else k]))
        hi = max(hi, lo)
    else:
        lo = draw(st.integers(0, k))
        hi = draw(st.integers(lo, k))
    members = [build.feat(f"M{i}") for i in range(k)]
    group = build.rel(lo, hi, members)
    extra = build.feat("Opt")
    if group_alone or draw(st.booleans()):       # group_alone: the group is the only relation of its owner
        holder = build.feat("Holder", [group])
        root = build.feat("Root", [build.rel(draw(st.integers(0, 1)), 1, [holder]), build.rel(0, 1, [extra])])
        above = ["Root", "Holder"]
    else:
        root = build.feat("Root", [group, build.rel(0, 1, [extra])])
        above = ["Root"]
    ctcs = []
    if draw(st.integers(0, 2)) == 0:
        ctcs.append({"name": "C0", "ast": [draw(st.sampled_from(["IMPLIES", "EXCLUDES", "REQUIRES"])),
                                           ["T", draw(st.sampled_from([f"M{i}" for i in range(k)]))],
                                           ["T", draw(st.sampled_from(["Opt", "M0", f"M{k - 1}"]))]]})
    sels = []
    names_m = [f"M{i}" for i in range(k)]
    counts = sorted({0, 1, lo - 1, lo, lo + 1, hi - 1, hi, hi + 1, k - 1, k} & set(range(0, k + 1)))
    if few_selections:
        counts = sorted({lo - 1, lo, hi, hi + 1, 0} & set(range(0, k + 1)))
    for c in counts:
        picks = [names_m[:c]] if few_selections else [names_m[:c], list(draw(st.permutations(names_m)))[:c]]
        for pk in picks:
            for opt in ([[]] if few_selections else ([], ["Opt"])):
                sels.append(sorted(above + pk + opt))
    sels.append(["Root"])
    sels.append(sorted(["Root"] + names_m[:lo]))     # members without their holder (when there is one)
    return {"model": {"root": root, "ctcs": ctcs}, "selections": sels}


@st.composite
def twin_subtree_models(draw, profile=None, with_ctcs=False):
    """Two (or three) sibling sub-trees that are rearrangements of one another: the same relation kinds and the same
    child shapes, but the children attached to other relations, or two cardinalities exchanged, or nothing changed but
    the names.  Anything that summarises a sub-tree by a key (shape, size, kinds) must still tell them apart."""
    import copy
    # (2-4 features per sub-tree: the oracles enumerate configurations, 2 x 4 + 1 features stay cheap)
    base = draw(S.model_specs(profile or S.BOOLEAN_ANY, 2, 4, with_ctcs=False, allow_wide=False))["root"]

    def rename(f, tag):
        f["name"] = f["name"] + tag
        for r in f["rels"]:
            for c in r["children"]:
                rename(c, tag)
    subs = []
    for t in range(2 if len(list(build.iter_feats(base))) > 3 else draw(st.integers(2, 3))):
        sub = copy.deepcopy(base)
        rename(sub, f"_{t}")
        owners = [f for f, _ in build.iter_feats(sub) if len(f["rels"]) >= 2]
        how = draw(st.integers(0, 3)) if t else 0
        if how == 1 and owners:
            o = draw(st.sampled_from(owners))
            i, j = draw(st.permutations(list(range(len(o["rels"])))))[:2]
            a, b = o["rels"][i], o["rels"][j]
            if len(a["children"]) == len(b["children"]):
                a["children"], b["children"] = b["children"], a["children"]       # children change relation
        elif how == 2 and owners:
            o = draw(st.sampled_from(owners))
            i, j = draw(st.permutations(list(range(len(o["rels"])))))[:2]
            a, b = o["rels"][i], o["rels"][j]
            if len(a["children"]) == len(b["children"]):
                a["min"], a["max"], b["min"], b["max"] = b["min"], b["max"], a["min"], a["max"]   # cardinalities exchanged
        elif how == 3:
            for f, _ in build.iter_feats(sub):
                if len(f["rels"]) >= 2 and draw(st.booleans()):
                    f["rels"].reverse()
        subs.append(sub)
    kind = draw(st.sampled_from(["optional", "mandatory", "group"]))
    if kind == "group" and len(subs) >= 2:
        lo = draw(st.integers(0, len(subs)))
        rels = [build.rel(lo, draw(st.integers(max(lo, 1), len(subs))), subs)]
    else:
        rels = [build.rel(1 if kind == "mandatory" else 0, 1, [s_]) for s_ in subs]
    model = {"root": build.feat("Root", rels), "ctcs": []}
    if with_ctcs:
        nm = build.names(model)
        model["ctcs"] = [{"name": "C0", "ast": ["IMPLIES", ["T", draw(st.sampled_from(nm))], ["T", draw(st.sampled_from(nm))]]}]
    return model
