"""C04 - the UVL reader yields the model the document denotes, or fails loudly."""
from hypothesis import strategies as st

from vf import build, emit_uvl, logic, roundtrip as rt, strategies as S, uvl_raw
from vf.oracle import Raised, Scratch, lib
from vf.props.c01 import classes as c01_classes
from vf.runner import Sub

ID = "C04"
RULE = ("Positive cases: a reference model (UVL profile: typed features, feature/group cardinalities [n] [n..m] [n..*], abstract "
        "markers, all attribute value kinds, constraints over ! & | => <=>, six comparisons, + - * /, sum/avg with one and two "
        "arguments, len, floor, ceil) rendered by the independent reference emitter vf/emit_uvl.py under Hypothesis-drawn surface "
        "choices (quoting, redundant parentheses, several children under one keyword, indentation unit, [n] vs [n..n], abstract vs "
        "abstract true, attribute order, explicit Boolean, spacing, comments, namespace/include/imports headers, LF/CRLF, final "
        "newline); documents the raw dependency parser rejects are discarded and counted. Negative cases: a valid document plus one "
        "invalidating edit (unbalanced bracket, stray operator, missing features keyword / group keyword, broken indentation, "
        "illegal character), kept only if the raw uvlparser reports a syntax error. Non-trivial: positive document with >= 2 "
        "surface choices differing from the writer's canonical form, or any negative document; distinct = distinct document text.")
ASSUMPTIONS = ["the meaning of a document is my transcription of the UVL definition (vf/emit_uvl.py + the group rules in DESIGN C04)",
               "validity filter = raw uvlparser with strict listeners on lexer and parser (dependency); its quirks are avoided by the emitter",
               "constraints are compared positionally under truth-table equivalence with structural comparison atoms",
               "a mutated/fuzzed document that stays grammatical but has no `features` section denotes no root and is not judged (counted as class mutation-no-features-section)"]

C04_LOGICAL = ("NOT", "AND", "OR", "IMPLIES", "EQUIVALENCE")
ATTR_POOL = ["cost", "w", "a b", "1x", "é"]


def _ctc(draw, names, feats):
    kind = draw(st.integers(0, 5))
    if kind <= 2:
        return draw(S.expr_of_depth(names, C04_LOGICAL, draw(st.integers(0, 4))))

    def ref():
        # the attribute part is now and then spelled like (another) feature of the model
        attr = draw(st.sampled_from(names)) if draw(st.integers(0, 3)) == 0 else draw(st.sampled_from(ATTR_POOL))
        return ["T", draw(st.sampled_from(names)) + "." + attr]

    def arith(d):
        c = draw(st.integers(0, 7))
        if d <= 0 or c == 0:
            return ref()
        if c == 1:
            return ["I", draw(st.integers(0, 10**6))]
        if c == 2:
            return ["F", draw(S.plain_floats())["$float"].lstrip("-")]
        if c == 3:
            agg = [draw(st.sampled_from(["SUM", "AVG"])), ["T", draw(st.sampled_from(ATTR_POOL))]]
            if draw(st.booleans()):
                agg.append(["T", draw(st.sampled_from(names))])
            return agg
        if c == 4:
            return [draw(st.sampled_from(["LEN", "FLOOR", "CEIL"])), ref()]
        return [draw(st.sampled_from(logic.ARITH)), arith(d - 1), arith(d - 1)]

    op = draw(st.sampled_from(logic.COMPARISON))
    if op in ("EQUALS", "NOT_EQUALS") and draw(st.integers(0, 3)) == 0:
        lit = draw(st.one_of(st.text(alphabet="abcXYZ019 _-+", min_size=1, max_size=5),
                             st.sampled_from(["buy // sell", "/* x */", "a /* b", "(x)", "a => b"])))
        cmp_ = [op, ref(), ["S", "'" + lit + "'"]]
    else:
        cmp_ = [op, arith(2), arith(2)]
    if kind == 3:
        return cmp_
    if kind == 4:
        return [draw(st.sampled_from(["AND", "OR", "IMPLIES", "EQUIVALENCE"])), cmp_,
                draw(S.expr_of_depth(names, C04_LOGICAL, 1))]
    return ["NOT", cmp_]


PROFILE = S.Profile(S.uvl_names(), single=("mandatory", "optional", "card1", "star1"),
                    group=("alternative", "or", "mutex", "card", "star"), layout="free",
                    ftypes=("BOOLEAN", "BOOLEAN", "BOOLEAN", "INTEGER", "REAL", "STRING"), fcards=True, abstract=True,
                    attrs=S._uvl_attrs, ctc_max=4, ctc_expr=_ctc, variants=S.VARIANTS_TEXT, wide=True, simple_ops=C04_LOGICAL)


def code_positions(text):
    """Indexes of characters that are outside quotes and comments."""
    out = []
    i, n = 0, len(text)
    while i < n:
        ch = text[i]
        if ch in "\"'":
            j = text.find(ch, i + 1)
            nl = text.find("\n", i + 1)
            if j == -1 or (nl != -1 and nl < j):
                out.append(i)
                i += 1
                continue
            i = j + 1
            continue
        if text.startswith("//", i):
            j = text.find("\n", i)
            i = n if j == -1 else j
            continue
        if text.startswith("/*", i):
            j = text.find("*/", i + 2)
            i = n if j == -1 else j + 2
            continue
        out.append(i)
        i += 1
    return out


def invalidate(draw, text):
    """One invalidating edit; returns (kind, new_text) or None when the kind does not apply."""
    pos = code_positions(text)
    kind = draw(st.sampled_from(["bracket", "stray-operator", "missing-keyword", "indentation", "illegal-char"]))
    nl = "\r\n" if "\r\n" in text else "\n"
    lines = text.split(nl)
    if kind == "bracket":
        closers = [i for i in pos if text[i] in ")]}"]
        if closers and draw(st.booleans()):
            i = draw(st.sampled_from(closers))
            return kind, text[:i] + text[i + 1:]
        cons = [k for k, ln in enumerate(lines) if ln.strip() == "constraints" or ln.strip().startswith("constraints //")]
        if not cons or cons[0] + 1 >= len(lines) or not lines[cons[0] + 1].strip():
            return None
        k = draw(st.integers(cons[0] + 1, len(lines) - 1))
        if not lines[k].strip():
            return None
        stripped = lines[k].lstrip()
        lines[k] = lines[k][:len(lines[k]) - len(stripped)] + "(" + stripped
        return kind, nl.join(lines)
    if kind == "stray-operator":
        cons = [k for k, ln in enumerate(lines) if ln.strip().split(" //")[0].strip() == "constraints"]
        if not cons:
            return None
        cands = [k for k in range(cons[0] + 1, len(lines)) if lines[k].strip()]
        if not cands:
            return None
        k = draw(st.sampled_from(cands))
        body = lines[k].split(" //")[0]
        tail = lines[k][len(body):]
        stripped = body.lstrip()
        indent = body[:len(body) - len(stripped)]
        how = draw(st.sampled_from(["trailing", "leading", "double"]))
        op = draw(st.sampled_from(["&", "|", "=>", "<=>"]))
        if how == "trailing":
            body = body.rstrip() + " " + op
        elif how == "leading":
            body = indent + op + " " + stripped
        else:
            body = indent + stripped + " " + op + " " + op + " " + stripped
        lines[k] = body + tail
        return kind, nl.join(lines)
    if kind == "missing-keyword":
        if draw(st.booleans()):
            k = next(k for k, ln in enumerate(lines) if ln.split(" //")[0].strip() == "features")
            del lines[k]
            return kind, nl.join(lines)
        kws = [k for k, ln in enumerate(lines)
               if ln.split(" //")[0].strip() in ("mandatory", "optional", "or", "alternative")]
        if not kws:
            return None
        k = draw(st.sampled_from(kws))
        del lines[k]
        return kind, nl.join(lines)
    if kind == "indentation":
        feat_start = next(k for k, ln in enumerate(lines) if ln.split(" //")[0].strip() == "features")
        cands = [k for k in range(feat_start + 2, len(lines)) if lines[k].strip() and lines[k][0] in " \t"]
        if not cands:
            return None
        k = draw(st.sampled_from(cands))
        if draw(st.booleans()):
            lines[k] = " " + lines[k]
        else:
            stripped = lines[k].lstrip(" \t")
            indent = lines[k][:len(lines[k]) - len(stripped)]
            if len(indent) < 2:
                return None
            lines[k] = indent[:-1] + stripped if indent[0] == " " else " " + indent[:-1] + stripped
            if indent[0] == "\t":
                lines[k] = indent[:-1] + " " * 0 + stripped
                lines[k] = " " + lines[k]
        return kind, nl.join(lines)
    # illegal character
    cands = [i for i in pos if text[i] not in "\r\n"]
    i = draw(st.sampled_from(cands))
    ch = draw(st.sampled_from("$@^~`"))
    return kind, text[:i] + ch + text[i:]


@st.composite
def positive(draw, max_feats):
    model = draw(S.model_specs(PROFILE, 1, max_feats))
    over = False
    if draw(st.integers(0, 7)) == 0:
        # the language admits an upper bound above the number of listed children; it is read as written
        rels = [r for r, _ in build.iter_rels(model["root"]) if r["max"] != -1]
        if rels:
            r = draw(st.sampled_from(rels))
            r["max"] = len(r["children"]) + draw(st.integers(1, 12))
            over = True
    text, labels = emit_uvl.emit(draw, model)
    return {"model": model, "text": text, "labels": labels + (["upper-bound-above-children"] if over else []), "expect": "model"}


@st.composite
def negative(draw, max_feats):
    base = draw(positive(max_feats))
    res = invalidate(draw, base["text"])
    if res is None:
        i = draw(st.sampled_from([i for i in code_positions(base["text"]) if base["text"][i] not in "\r\n"]))
        res = ("illegal-char", base["text"][:i] + "$" + base["text"][i:])
    kind, text = res
    return {"model": base["model"], "text": text, "labels": [kind], "expect": "error", "edit": kind}


MUT_ALPHABET = list("()[]{}<>=!&|,.'\"+-*/ \t\n:;#$@^~`%?_0a") + ["=>", "<=>", "..", "features", "constraints", "mandatory",
                                                                    "or", "cardinality", "true", "//", "/*", "*/"]


@st.composite
def mutated(draw, max_feats):
    """A valid emitted document with 1-3 random character-level edits (delete / insert / replace / duplicate a
    line).  Most of them break the syntax somewhere the hand-made edits do not reach; the raw parser decides."""
    base = draw(positive(max_feats))
    text = base["text"]
    for _ in range(draw(st.integers(1, 3))):
        if not text:
            break
        i = draw(st.integers(0, len(text) - 1))
        how = draw(st.sampled_from(["delete", "insert", "replace", "swap", "dup-line"]))
        tok = draw(st.sampled_from(MUT_ALPHABET))
        if how == "delete":
            text = text[:i] + text[i + 1:]
        elif how == "insert":
            text = text[:i] + tok + text[i:]
        elif how == "replace":
            text = text[:i] + tok + text[i + 1:]
        elif how == "swap" and i + 1 < len(text):
            text = text[:i] + text[i + 1] + text[i] + text[i + 2:]
        else:
            lines = text.split("\n")
            k = draw(st.integers(0, len(lines) - 1))
            lines.insert(k, lines[k])
            text = "\n".join(lines)
    return {"model": base["model"], "text": text, "labels": ["mutation"], "expect": "error-if-invalid", "edit": "mutation"}


def enum_atheris(tier, seed):
    """Coverage-guided auxiliary campaign (vf/fuzz_uvl.py): libFuzzer mutates emitted documents; every input
    it kept (new coverage) and every artifact (oracle violation inside the target) becomes a case for the
    normal oracle.  Approximately reproducible (-seed, -runs, fresh corpus); the saved input is the exact unit."""
    import os
    import shutil
    import subprocess
    import sys
    import tempfile
    from hypothesis import HealthCheck, Phase, given, seed as hseed, settings
    from vf import env
    if not os.path.isdir(os.path.join(env.VERIF_DIR, ".deps", "atheris")):
        return []                       # atheris unavailable: the Hypothesis sub-checks still decide C04
    docs = []

    @hseed(int(seed))
    @settings(max_examples=24, database=None, deadline=None, phases=[Phase.generate],
              suppress_health_check=list(HealthCheck))
    @given(positive(6))
    def collect(c):
        docs.append(c["text"])
    collect()
    work = tempfile.mkdtemp(prefix="vf-atheris-")
    try:
        corpus, art = os.path.join(work, "corpus"), os.path.join(work, "artifacts")
        os.makedirs(corpus)
        os.makedirs(art)
        for i, d in enumerate(docs):
            with open(os.path.join(corpus, f"seed{i:02d}"), "w", encoding="utf-8", newline="") as fh:
                fh.write(d)
        runs = 60000 if tier == "thorough" else 1200
        environ = dict(os.environ)
        environ["PYTHONPATH"] = env.VERIF_DIR + os.pathsep + environ.get("PYTHONPATH", "")
        subprocess.run([sys.executable, "-m", "vf.fuzz_uvl", corpus, art, str(runs), str(int(seed))], env=environ,
                       cwd=env.VERIF_DIR, capture_output=True, timeout=3600)
        cases = []
        for d in (corpus, art):
            for fn in sorted(os.listdir(d)):
                with open(os.path.join(d, fn), "rb") as fh:
                    data = fh.read()
                try:
                    text = data.decode("utf-8")
                except UnicodeDecodeError:
                    continue
                cases.append({"model": None, "text": text, "labels": ["atheris"], "expect": "error-if-invalid",
                              "edit": "atheris"})
        return cases
    finally:
        shutil.rmtree(work, ignore_errors=True)


def check(case):
    from flamapy.metamodels.fm_metamodel.transformations import UVLReader
    out = []
    text = case["text"]
    lex_err, par_err = uvl_raw.strict_errors(text)
    with Scratch() as sc:
        p = sc.path("doc.uvl")
        with open(p, "w", encoding="utf-8", newline="") as fh:
            fh.write(text)
        got = lib(lambda: UVLReader(p).transform())
    if case["expect"] == "error-if-invalid":
        if not (lex_err or par_err):
            if uvl_raw.strict_errors.no_features:
                # grammatically valid but without a `features` section (e.g. swallowed by a block comment): the
                # document denotes no root, hence no model of this metamodel; nothing is claimed about it
                return out
            # still valid (its meaning is unknown): the reader must not crash with a non-library error while
            # building the model from a syntactically valid document
            if isinstance(got, Raised) and got.label.split("@")[0] not in ("FlamaException", "ParsingException"):
                out.append((f"C04.valid-mutated-document-crashes:{got.label}", got.text))
            elif not isinstance(got, Raised):
                # a mutated document may legitimately repeat a feature name (C02/C04 do not claim uniqueness)
                out += [(k, d) for k, d in rt.wellformed(build.observe(got), "C04") if not k.endswith("duplicate-names")]
            return out
        if not isinstance(got, Raised):
            out.append((f"C04.syntax-error-accepted:{case['edit']}", f"raw parser: {(lex_err + par_err)[:2]}"))
        return out
    if case["expect"] == "error":
        relevant = lex_err if case["edit"] == "illegal-char" else par_err
        if not relevant:
            return []                      # the edit did not make the document invalid: dropped (counted in classes)
        if not isinstance(got, Raised):
            out.append((f"C04.syntax-error-accepted:{case['edit']}", f"raw parser: {(lex_err + par_err)[:2]}"))
        return out
    if lex_err or par_err:
        return []                          # dependency parser rejects the emitted document: discarded (counted)
    if isinstance(got, Raised):
        return [(f"C04.valid-document-rejected:{got.label}", got.text)]
    model = case["model"]
    obs = build.observe(got)
    out += rt.wellformed(obs, "C04")
    out += rt.same_tree(model, obs, "C04")
    out += rt.compare_flags_attrs(model, obs, "C04")
    exprs = rt.constraint_exprs(got, "C04", out)
    want = [c["ast"] for c in model["ctcs"]]
    if len(exprs) != len(want):
        out.append(("C04.ctc-count", f"expected {len(want)}, got {len(exprs)}"))
    else:
        for i, (g, w) in enumerate(zip(exprs, want)):
            if g is None:
                continue
            try:
                ok = logic.equiv(g, w)
            except (KeyError, ValueError):
                ok = False
            if not ok:
                out.append(("C04.ctc-not-equivalent", f"#{i}: expected {logic.canon(w)}, got {logic.canon(g)}"))
                break
    return out


def _status(case):
    lex_err, par_err = uvl_raw.strict_errors(case["text"])
    if case["expect"] == "error-if-invalid":
        if not (lex_err or par_err) and uvl_raw.strict_errors.no_features:
            return "mutation-no-features-section(not judged)"
        return "negative-kept" if (lex_err or par_err) else "mutation-still-valid"
    if case["expect"] == "error":
        relevant = lex_err if case["edit"] == "illegal-char" else par_err
        return "negative-kept" if relevant else "negative-dropped"
    return "dependency_parser_rejects" if (lex_err or par_err) else "positive-kept"


def nontrivial(case):
    s = _status(case)
    if s == "negative-kept":
        return True
    return s == "positive-kept" and len(case["labels"]) >= 2


def classes(case):
    out = {_status(case)}
    if case["expect"] in ("error", "error-if-invalid"):
        out.add("edit:" + case["edit"])
        if "negative-kept" in out:
            out.add("kept:" + case["edit"])
    else:
        out |= {"surface:" + lb for lb in case["labels"]}
        out |= c01_classes({"model": case["model"]})
    return out


SUBS = [
    Sub("mutations", check, gen=lambda tier: mutated(6), nontrivial=nontrivial, classes=classes,
        n={"quick": 30, "thorough": 1500}, essential=["negative-kept"]),
    Sub("atheris", check, enum=enum_atheris, nontrivial=nontrivial, classes=classes, shards={"quick": 1, "thorough": 1},
        min_nontrivial=0.0),
    Sub("positive", check, gen=lambda tier: positive(20 if tier == "thorough" else 10), nontrivial=nontrivial,
        classes=classes, n={"quick": 45, "thorough": 1000},
        essential=["positive-kept", "surface:several-children-under-one-keyword", "surface:quoted-plain-identifier",
                   "surface:redundant-parentheses", "surface:namespace", "surface:include", "surface:imports",
                   "surface:line-comment", "surface:crlf", "surface:abstract-true", "surface:named-group-as-cardinality",
                   "surface:space-indentation", "ctc:arithmetic", "ctc:aggregate", "typed", "fcard"]),
    Sub("negative", check, gen=lambda tier: negative(8), nontrivial=nontrivial, classes=classes,
        n={"quick": 30, "thorough": 700},
        essential=["kept:bracket", "kept:stray-operator", "kept:missing-keyword", "kept:indentation", "kept:illegal-char"]),
]

MANIFEST = {
    "technique": "property-based testing with an independent reference emitter (differential against the UVL definition) + fault injection into valid documents; validity oracle = raw uvlparser with strict lexer/parser listeners",
    "level_text": "Generated reference models are rendered by an independent emitter under random surface choices and must be read back as exactly that model; valid documents with one syntax-breaking edit must be rejected with an exception. Sampling only; conformance is to my transcription of the UVL definition. Also: group bounds above the number of members, namespaces and attributes spelled like features, '.5' literals, 1 200-run atheris campaign. A sample of every sub-check additionally runs in a `python -OO` child with the root logger at DEBUG.",
    "level_note": "Trusted: vf/emit_uvl.py (the transcription of UVL syntax and group semantics), the raw uvlparser as validity filter, vf/logic.py.",
}
