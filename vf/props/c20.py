"""C20 - equality and hashing of model elements obey the contract."""
import copy

from hypothesis import strategies as st

from vf import build, logic, strategies as S
from vf.oracle import Raised, lib
from vf.props import c03
from vf.runner import Sub

ID = "C20"
RULE = ("A case is (m, m', edits): m drawn by the 'any' profile (1..14 features, all relation triples, typed "
        "features, logical/arithmetic/aggregate constraints), m' the same spec with children, relations and "
        "constraints permuted by Hypothesis and rebuilt independently, and 1..3 single-point edits of m (rename, "
        "root rename, move sub-tree, split/merge group, change one cardinality, add/remove feature, change one "
        "operator, replace one operand, add/remove constraint). Non-trivial: two relations of m share owner and "
        "cardinality, or an edit changes only one cardinality or one operand; distinct = distinct canonical JSON.")
ASSUMPTIONS = [
    "edits keep the model well-formed; a renamed feature gets a name whose lower-case form is new",
    "only the claims of the statement are checked: reflexive, symmetric, hash-consistent, order-insensitive, "
    "and inequality for the listed structural differences (abstract flags, types, attributes are not claimed)",
]


def permute(draw, model):
    m = copy.deepcopy(model)

    def rec(f):
        for r in f["rels"]:
            if len(r["children"]) > 1:
                r["children"] = draw(st.permutations(r["children"]))
            for c in r["children"]:
                rec(c)
        if len(f["rels"]) > 1:
            f["rels"] = draw(st.permutations(f["rels"]))
    rec(m["root"])
    if len(m["ctcs"]) > 1:
        m["ctcs"] = draw(st.permutations(m["ctcs"]))
    return m


def _feats(m):
    return [f for f, _ in build.iter_feats(m["root"])]


def _fresh(m, base):
    used = {n.lower() for n in build.names(m)}
    name = base
    i = 0
    while name.lower() in used:
        i += 1
        name = f"{base}{i}"
    return name


def _subtree_names(f):
    return {x["name"] for x, _ in build.iter_feats(f)}


def _replace_leaf(e, idx, new):
    """Replace the idx-th leaf (pre-order) of e; returns (expr, count)."""
    counter = [0]

    def rec(x):
        if x[0] in logic.LEAF:
            i = counter[0]
            counter[0] += 1
            return new if i == idx else x
        return [x[0]] + [rec(s) for s in x[1:]]
    return rec(e)


def _nodes(e):
    """Operator nodes of e in the pre-order _replace_op counts in."""
    if e[0] in logic.LEAF:
        return []
    out = [e]
    for s_ in e[1:]:
        out += _nodes(s_)
    return out


def _replace_op(e, idx, newop_fn):
    counter = [0]

    def rec(x):
        if x[0] in logic.LEAF:
            return x
        i = counter[0]
        counter[0] += 1
        op = newop_fn(x) if i == idx else x[0]
        return [op] + [rec(s) for s in x[1:]]
    return rec(e)


def _alt_op_same_kind(x):
    """Another operator of the same kind and arity; unary operators stay what they are."""
    return x[0] if len(x) == 2 else _alt_op(x)


def _alt_op(x):
    op = x[0]
    if len(x) == 2:
        pool = ["NOT", "LEN", "FLOOR", "CEIL"]
    elif op in logic.BINARY_LOGICAL:
        pool = list(logic.BINARY_LOGICAL)
    elif op in logic.COMPARISON:
        pool = list(logic.COMPARISON)
    elif op in logic.ARITH:
        pool = list(logic.ARITH)
    else:
        pool = ["SUM", "AVG"]
    return pool[(pool.index(op) + 1) % len(pool)]


STRUCTURAL = ("add-feature", "remove-leaf", "card", "move", "split", "merge", "add-ctc", "remove-ctc")


def apply_edit(draw, model, only=None):
    """Returns (label, edited_model) - a single-point structural edit, constructed (never filtered)."""
    m = copy.deepcopy(model)
    feats = _feats(m)
    rels = [(r, o) for r, o in build.iter_rels(m["root"])]
    options = ["rename", "root-rename", "add-feature", "add-ctc"]
    if len(feats) >= 2:
        options += ["remove-leaf", "card"]
    if len(feats) >= 3:
        options.append("move")
    if any(len(r["children"]) >= 2 for r, _ in rels):
        options.append("split")
    if any(len(o["rels"]) >= 2 for _, o in rels):
        options.append("merge")
    if len({logic.canon(c["ast"]).lower() for c in m["ctcs"]}) >= 2:     # different beyond letter case
        options.append("ctc-copy")
    if m["ctcs"]:
        options += ["remove-ctc", "operand"]
        if any(c["ast"][0] not in logic.LEAF for c in m["ctcs"]):
            options.append("operator")
    if m["ctcs"] and only is not None and "operand-existing" in only:
        options.append("operand-existing")
    if only is not None and "operator-same-kind" in only and any(
            len(x) == 3 for c in m["ctcs"] for x in _nodes(c["ast"])):
        options.append("operator-same-kind")
    if only is not None:
        options = [o for o in options if o in only] or ["add-feature"]
    kind = draw(st.sampled_from(sorted(set(options))))
    if kind == "rename":
        f = draw(st.sampled_from(feats))
        f["name"] = _fresh(m, f["name"] + "_r")
    elif kind == "root-rename":
        m["root"]["name"] = _fresh(m, m["root"]["name"] + "_R")
    elif kind == "add-feature":
        f = draw(st.sampled_from(feats))
        f["rels"].append(build.rel(0, 1, [build.feat(_fresh(m, "Added"))]))
    elif kind == "remove-leaf":
        cands = [(r, o, c) for r, o in rels for c in r["children"] if not c["rels"]]
        r, o, c = draw(st.sampled_from(cands))
        r["children"].remove(c)
        if not r["children"]:
            o["rels"].remove(r)
        else:
            n = len(r["children"])
            r["max"] = r["max"] if r["max"] == -1 else min(r["max"], n)
            r["min"] = min(r["min"], n if r["max"] == -1 else r["max"])
    elif kind == "card":
        r, o = draw(st.sampled_from(rels))
        n = len(r["children"])
        alts = [(a, b) for a in range(0, n + 1) for b in list(range(a, n + 1)) + [-1] if (a, b) != (r["min"], r["max"])
                and (a == r["min"] or b == r["max"])]      # -1 = unbounded: [1..*] and [1..n] are different relations
        r["min"], r["max"] = draw(st.sampled_from(alts))
    elif kind == "move":
        cands = [(r, o, c) for r, o in rels for c in r["children"]]
        movable = []
        for r, o, c in cands:
            targets = [t for t in feats if t["name"] not in _subtree_names(c) and t is not o]
            if targets:
                movable.append((r, o, c, targets))
        if not movable:       # star with one inner node: fall back to a rename
            m["root"]["name"] = _fresh(m, m["root"]["name"] + "_R")
            return "root-rename", m
        r, o, c, targets = draw(st.sampled_from(movable))
        t = draw(st.sampled_from(targets))
        r["children"].remove(c)
        if not r["children"]:
            o["rels"].remove(r)
        else:
            n = len(r["children"])
            r["max"] = r["max"] if r["max"] == -1 else min(r["max"], n)
            r["min"] = min(r["min"], n if r["max"] == -1 else r["max"])
        t["rels"].append(build.rel(1, 1, [c]))
    elif kind == "split":
        r, o = draw(st.sampled_from([(r, o) for r, o in rels if len(r["children"]) >= 2]))
        first = r["children"].pop(0)
        n = len(r["children"])
        r["max"] = r["max"] if r["max"] == -1 else min(r["max"], n)
        r["min"] = min(r["min"], n if r["max"] == -1 else r["max"])
        o["rels"].append(build.rel(0, 1, [first]))
    elif kind == "merge":
        o = draw(st.sampled_from([o for o in feats if len(o["rels"]) >= 2]))
        a, b = o["rels"][0], o["rels"][1]
        o["rels"].remove(b)
        a["children"] = a["children"] + b["children"]
    elif kind == "add-ctc":
        names = build.names(m)
        m["ctcs"].append({"name": "Added", "ast": ["IMPLIES", ["T", names[0]], ["NOT", ["T", names[-1]]]]})
    elif kind == "ctc-copy":
        # one constraint becomes a copy of another, different one: the multiset of constraints changes even when
        # the set does not (models that repeat a constraint)
        i = draw(st.integers(0, len(m["ctcs"]) - 1))
        others = [c for c in m["ctcs"] if logic.canon(c["ast"]).lower() != logic.canon(m["ctcs"][i]["ast"]).lower()]
        m["ctcs"][i] = {"name": m["ctcs"][i]["name"], "ast": copy.deepcopy(draw(st.sampled_from(others))["ast"])}
    elif kind == "remove-ctc":
        m["ctcs"].pop(draw(st.integers(0, len(m["ctcs"]) - 1)))
    elif kind == "operand":
        c = draw(st.sampled_from(m["ctcs"]))
        nleaves = len(list(build.expr_leaves(c["ast"])))
        c["ast"] = _replace_leaf(c["ast"], draw(st.integers(0, nleaves - 1)), ["T", _fresh(m, "Zq") + "_other"])
    elif kind == "operand-existing":
        # one operand becomes another feature of the model (the constraint keeps its name)
        c = draw(st.sampled_from(m["ctcs"]))
        nleaves = len(list(build.expr_leaves(c["ast"])))
        c["ast"] = _replace_leaf(c["ast"], draw(st.integers(0, nleaves - 1)), ["T", draw(st.sampled_from(build.names(m)))])
    elif kind == "operator-same-kind":
        c = draw(st.sampled_from([c for c in m["ctcs"] if any(len(x) == 3 for x in _nodes(c["ast"]))]))
        idxs = [i for i, x in enumerate(_nodes(c["ast"])) if len(x) == 3]
        c["ast"] = _replace_op(c["ast"], draw(st.sampled_from(idxs)), _alt_op_same_kind)
    elif kind == "operator":
        c = draw(st.sampled_from([c for c in m["ctcs"] if c["ast"][0] not in logic.LEAF]))
        nops = len(list(build.expr_ops(c["ast"])))
        c["ast"] = _replace_op(c["ast"], draw(st.integers(0, nops - 1)), _alt_op)
    return kind, m


ANY_STAR = S.Profile(S.ident_or_dict_names(), single=("mandatory", "optional", "card1", "star1"),
                     group=("alternative", "or", "mutex", "card", "star"), layout="free",
                     ftypes=("BOOLEAN", "BOOLEAN", "INTEGER", "REAL", "STRING"), fcards=True, ctc_max=5,
                     ctc_expr=c03._any_ctc, wide=True, simple_ops=logic.LOGICAL)


@st.composite
def cases(draw, max_feats):
    m = draw(S.model_specs(ANY_STAR, 1, max_feats))
    if draw(st.integers(0, 3)) == 0:
        # two groups with the same owner and cardinality (the ordering of relations matters for equality)
        owner = draw(st.sampled_from(_feats(m)))
        lo, hi = draw(st.sampled_from([(1, 1), (1, 2), (0, 1), (0, 2), (2, 2)]))
        for _ in range(2):
            kids = [build.feat(_fresh(m, draw(S.ident_names(4)))) for _ in range(2)]
            if kids[0]["name"].lower() == kids[1]["name"].lower():
                kids[1]["name"] = kids[1]["name"] + "_2"
            owner["rels"].append(build.rel(lo, hi, kids))
    if m["ctcs"] and draw(st.integers(0, 2)) == 0:
        # repeated constraints (equal formulas under different names)
        dup = copy.deepcopy(draw(st.sampled_from(m["ctcs"])))
        dup["name"] = dup["name"] + "_again"
        m["ctcs"].insert(draw(st.integers(0, len(m["ctcs"]))), dup)
    mp = permute(draw, m)
    edits = []
    for _ in range(draw(st.integers(1, 3))):
        label, e = apply_edit(draw, m)
        edits.append({"label": label, "model": e})
    return {"model": m, "perm": mp, "edits": edits}


def _eq(a, b):
    return lib(lambda: a == b)


def _ne(a, b):
    return lib(lambda: a != b)


def _contract(out, what, a, b):
    """symmetry + hash consistency for a pair of objects."""
    ab, ba = _eq(a, b), _eq(b, a)
    for r in (ab, ba):
        if isinstance(r, Raised):
            out.append((f"C20.{what}.eq-raised:{r.label}", r.text))
            return None
    if bool(ab) != bool(ba):
        out.append((f"C20.{what}.not-symmetric", f"{a!s:.60} vs {b!s:.60}: {ab} / {ba}"))
    nab = _ne(a, b)
    if not isinstance(nab, Raised) and bool(nab) == bool(ab):
        out.append((f"C20.{what}.ne-inconsistent", f"== {ab}, != {nab}"))
    if ab and ba:
        ha, hb = lib(hash, a), lib(hash, b)
        if isinstance(ha, Raised) or isinstance(hb, Raised):
            out.append((f"C20.{what}.hash-raised", ""))
        elif ha != hb:
            out.append((f"C20.{what}.equal-but-different-hash", f"{a!s:.80} / {b!s:.80}"))
    return bool(ab)


def _elements(fm):
    feats, rels = build.walk_objects(fm)
    return feats, rels, list(fm.ctcs)


def check(case):
    out = []
    m = build.build(case["model"])
    mp = build.build(case["perm"])
    F, R, C = _elements(m)
    Fp, Rp, Cp = _elements(mp)
    # reflexivity
    for what, objs in (("feature", F), ("relation", R), ("constraint", C), ("model", [m])):
        for o in objs:
            r = _eq(o, o)
            if isinstance(r, Raised):
                out.append((f"C20.{what}.eq-raised:{r.label}", r.text))
            elif not r:
                out.append((f"C20.{what}.not-reflexive", f"{o!s:.80}"))
    # the permuted rebuild is equal, with equal hash, element by element and as a whole
    byname = {f.name: f for f in Fp}
    for f in F:
        if _contract(out, "feature", f, byname[f.name]) is False:
            out.append(("C20.feature.copy-unequal", f.name))

    def rkey(r):
        return (r.parent.name, r.card_min, r.card_max, tuple(sorted(c.name for c in r.children)))
    rp_by = {rkey(r): r for r in Rp}
    for r in R:
        if _contract(out, "relation", r, rp_by[rkey(r)]) is False:
            out.append(("C20.relation.permuted-copy-unequal", str(r)))
    # constraints: i-th of m corresponds to the one with the same spec in perm
    canon_p = [logic.canon(c["ast"]) for c in case["perm"]["ctcs"]]
    for i, c in enumerate(C):
        j = canon_p.index(logic.canon(case["model"]["ctcs"][i]["ast"]))
        if _contract(out, "constraint", c, Cp[j]) is False:
            out.append(("C20.constraint.copy-unequal", str(c)))
    if _contract(out, "model", m, mp) is False:
        out.append(("C20.model.permuted-copy-unequal", ""))
    else:
        s = lib(lambda: len({m, mp}))
        if isinstance(s, Raised):
            out.append((f"C20.model.set-raised:{s.label}", s.text))
        elif s != 1:
            out.append(("C20.model.set-of-equal-models-has-2", ""))
    # cross pairs inside one model: symmetry + hash consistency
    for objs, what in ((F, "feature"), (R, "relation"), (C, "constraint")):
        for a in objs[:6]:
            for b in objs[:6]:
                _contract(out, what, a, b)
    # single-point edits are unequal
    for ed in case["edits"]:
        e = build.build(ed["model"])
        res = _contract(out, "model", m, e)
        if res is True:
            out.append((f"C20.model.edit-equal:{ed['label']}", ""))
        Fe, Re, Ce = _elements(e)
        for a, b in zip(R[:5], Re[:5]):
            _contract(out, "relation", a, b)
        for a, b in zip(C[:5], Ce[:5]):
            _contract(out, "constraint", a, b)
    # in-place edits after the objects have been compared, hashed and sorted once (stale cached keys):
    # the edited object must equal an independent build of the edited spec and differ from the original
    for ed in case["edits"]:
        if ed["label"] not in ("card", "operand", "operator", "rename", "root-rename"):
            continue
        # (node-by-node assignment needs a tree: with shared Node objects one assignment would edit two places)
        m2 = build.build({**case["model"], "share_nodes": False})
        lib(lambda: (m2 == m, hash(m2), sorted(m2.ctcs), sorted(build.walk_objects(m2)[1]), {c: 1 for c in m2.ctcs}))
        e = build.build(ed["model"])
        if not _copy_scalars(m2, e):
            continue
        if _contract(out, "model", m2, e) is False:
            out.append((f"C20.model.in-place-edit-not-seen:{ed['label']}", "edited object != fresh build of the edited model"))
        if _contract(out, "model", m2, m) is True:
            out.append((f"C20.model.in-place-edit-still-equal:{ed['label']}", "edited object == original model"))
    return [(k, d) for k, d in dict.fromkeys(out)]


def _copy_scalars(dst, src):
    """Make dst the same model as src by assigning scalar fields in place (same shape required)."""
    fd, rd = build.walk_objects(dst)
    fs, rs = build.walk_objects(src)
    if len(fd) != len(fs) or len(rd) != len(rs) or len(dst.ctcs) != len(src.ctcs):
        return False
    for a, b in zip(fd, fs):
        a.name = b.name
    for a, b in zip(rd, rs):
        if len(a.children) != len(b.children):
            return False
        a.card_min, a.card_max = b.card_min, b.card_max

    def nodes(n, acc):
        if n is not None:
            acc.append(n)
            nodes(n.left, acc)
            nodes(n.right, acc)
        return acc
    for ca, cb in zip(dst.ctcs, src.ctcs):
        na, nb = nodes(ca.ast.root, []), nodes(cb.ast.root, [])
        if len(na) != len(nb):
            return False
        for x, y in zip(na, nb):
            x.data = y.data
    return True


def nontrivial(case):
    seen = set()
    for r, o in build.iter_rels(case["model"]["root"]):
        k = (o["name"], r["min"], r["max"])
        if k in seen:
            return True
        seen.add(k)
    return any(e["label"] in ("card", "operand") for e in case["edits"])


def classes(case):
    out = {"edit:" + e["label"] for e in case["edits"]}
    seen = set()
    for r, o in build.iter_rels(case["model"]["root"]):
        k = (o["name"], r["min"], r["max"], len(r["children"]) >= 2)
        if k in seen and k[3]:
            out.add("twin-groups")
        seen.add(k)
    return out


SUBS = [
    Sub("pairs-and-edits", check, gen=lambda tier: cases(14), nontrivial=nontrivial, classes=classes,
        n={"quick": 600, "thorough": 6000},
        essential=["edit:ctc-copy", "edit:card", "edit:operand", "edit:operator", "edit:move", "edit:split", "edit:merge",
                   "edit:rename", "twin-groups"]),
]

MANIFEST = {
    "technique": "property-based testing: Hypothesis draws a model, an order-permuted independent rebuild and single-point edits; oracle = the equality/hash contract (reflexive, symmetric, hash-consistent, order-insensitive, edit-sensitive)",
    "level_text": "Generated-input search over models, permuted copies and eleven kinds of single-point edits; each pair is checked against the algebraic contract. Sampling only - no exhaustive sub-domain. Also: relations [a..*], repeated constraints, name variants (case, blanks, zero-padded digit runs), in-place edits after objects were compared/hashed/sorted. A sample of every sub-check additionally runs in a `python -OO` child with the root logger at DEBUG.",
    "level_note": "Trusted: the edit functions in vf/props/c20.py really change the named aspect and keep models well-formed; Hypothesis.",
}
