"""C13 - configuration estimate is exact without constraints, an upper bound with."""
from vf import build, semantics
from vf.oracle import Raised, lib
from vf.props import _bool
from vf.runner import Sub

ID = "C13"
RULE = ("Cases are Boolean feature models: (a) exhaustively every tree shape with <=5 features (quick; <=7 plus a "
        "20 000-shape slice of 8 in thorough) with every partition of children into relations and every 0<=min<=max<=k, "
        "(b) random boolean_any models up to 12 features (all relation kinds, several relations per parent), (c) the "
        "same with 1-3 logical constraints over the eight operators. Non-trivial: model with a mutex/[a,b]/(0,0) "
        "relation, or >=2 relations under one parent, or depth>=3; distinct = distinct canonical JSON.")
ASSUMPTIONS = ["exact counts come from vf/semantics.py (brute-force enumeration, <= 12 features)"]


def check(case):
    from flamapy.metamodels.fm_metamodel.operations import FMEstimatedConfigurationsNumber
    out = []
    fm = build.build(case)
    got = lib(lambda: FMEstimatedConfigurationsNumber().execute(fm).get_result())
    if isinstance(got, Raised):
        return [(f"C13.raised:{got.label}", got.text)]
    if isinstance(got, bool) or not isinstance(got, int):
        out.append(("C13.not-an-int", repr(got)))
        return out
    tree_n = len(semantics.tree_configs(case))
    if not case["ctcs"]:
        if got != tree_n:
            out.append(("C13.estimate-not-exact", f"estimate {got}, exact {tree_n}"))
    else:
        n = len(semantics.configs(case))
        if got < n:
            out.append(("C13.estimate-below-exact", f"estimate {got} < exact {n}"))
    return out


def nontrivial(case):
    return _bool.structure_nontrivial(case)


SUBS = [
    Sub("shapes", check, enum=_bool.enum_shapes, nontrivial=nontrivial, classes=_bool.structure_classes, exhaustive=True),
    Sub("random-no-ctcs", check, gen=lambda tier: _bool.random_models(False), nontrivial=nontrivial,
        classes=_bool.structure_classes, n={"quick": 800, "thorough": 6000},
        essential=["rel:mutex", "rel:cardinal", "rel:star", "multi-relations-parent"]),
    Sub("random-ctcs", check, gen=lambda tier: _bool.random_models(True, 10), nontrivial=nontrivial,
        classes=_bool.structure_classes, n={"quick": 200, "thorough": 2500}, essential=["with-ctcs"]),
]

MANIFEST = {
    "technique": "exhaustive enumeration of all small feature-tree shapes + Hypothesis random models; oracle = independent brute-force configuration enumerator",
    "level_text": "Exact for every tree shape up to 5 features (quick) / 7 features (thorough); random models up to 12 features beyond that. Differential against an independent brute-force enumerator.",
    "level_note": "Trusted: vf/semantics.py (tree rules and propositional semantics), vf/shapes.py enumeration (counts cross-checked: 1,3,21,146,1143,9396,81192).",
}
