"""C13 - configuration estimate is exact without constraints, an upper bound with."""
from vf import build, semantics, strategies as S
from vf.oracle import Raised, lib
from vf.props import _bool
from vf.runner import Sub

ID = "C13"
RULE = ("Cases are Boolean feature models: (a) exhaustively every tree shape with <=5 features (quick; <=7 plus a "
        "20 000-shape slice of 8 in thorough) with every partition of children into relations and every 0<=min<=max<=k, "
        "(b) random boolean_any models up to 12 features (all relation kinds, several relations per parent), (c) the "
        "same with 1-3 logical constraints over the eight operators. Non-trivial: model with a mutex/[a,b]/(0,0) "
        "relation, or >=2 relations under one parent, or depth>=3; distinct = distinct canonical JSON. (d) large models "
        "(groups of up to 90 leaves, counts far above 2^53) against an independent exact big-integer counter that is itself "
        "cross-checked against brute force on every small case.")
ASSUMPTIONS = ["exact counts come from vf/semantics.py (brute-force enumeration, <= 12 features)"]


def exact_tree_count(f):
    """Number of configurations of f's subtree given f is selected - exact integer arithmetic, written
    independently of the library: per relation, the number of ways to pick k children with k in [min, max] is
    the coefficient of x^k in prod(1 + c_i x).  Used where brute force cannot reach (big groups); on every small
    case it is itself cross-checked against the brute-force enumerator."""
    total = 1
    for r in f["rels"]:
        counts = [exact_tree_count(c) for c in r["children"]]
        poly = [1]
        for c in counts:
            nxt = poly + [0]
            for k in range(len(poly)):
                nxt[k + 1] += poly[k] * c
            poly = nxt
        hi = len(counts) if r["max"] == -1 else min(r["max"], len(counts))
        total *= sum(poly[r["min"]:hi + 1])
    return total


def check_large(case):
    from flamapy.metamodels.fm_metamodel.operations import FMEstimatedConfigurationsNumber
    fm = build.build(case)
    got = lib(lambda: FMEstimatedConfigurationsNumber().execute(fm).get_result())
    if isinstance(got, Raised):
        return [(f"C13.raised:{got.label}", got.text)]
    want = exact_tree_count(case["root"])
    if isinstance(got, bool) or not isinstance(got, int):
        return [("C13.not-an-int", repr(got))]
    if not case["ctcs"] and got != want:
        return [("C13.estimate-not-exact", f"estimate {got}, exact {want} (difference {got - want})")]
    if case["ctcs"] and got < want and all(_is_tautology(c["ast"]) for c in case["ctcs"]):
        return [("C13.estimate-below-exact", f"estimate {got} < exact {want} (constraints are tautologies)")]
    return []


def _is_tautology(e):
    from vf import logic
    try:
        return logic.equiv(e, ["OR", ["T", "$t"], ["NOT", ["T", "$t"]]])
    except (KeyError, ValueError):
        return False


def check(case):
    return _bool.run_with_edits(case, check_fm, "C13")


def check_fm(fm, case, out):
    from flamapy.metamodels.fm_metamodel.operations import FMEstimatedConfigurationsNumber
    got = lib(lambda: FMEstimatedConfigurationsNumber().execute(fm).get_result())
    if isinstance(got, Raised):
        out.append((f"C13.raised:{got.label}", got.text))
        return out
    again = lib(lambda: (_bool.long_lived(FMEstimatedConfigurationsNumber).execute(fm), _bool.long_lived(FMEstimatedConfigurationsNumber).execute(fm).get_result())[1])
    if isinstance(again, Raised) or again != got:
        out.append(("C13.reused-object-differs", f"fresh object {got!r}, long-lived object {getattr(again, 'text', again)!r}"))
    if isinstance(got, bool) or not isinstance(got, int):
        out.append(("C13.not-an-int", repr(got)))
        return out
    tree_n = len(semantics.tree_configs(case))
    if exact_tree_count(case["root"]) != tree_n:
        raise AssertionError("harness: exact_tree_count disagrees with the brute-force enumerator")
    if not case["ctcs"]:
        if got != tree_n:
            out.append(("C13.estimate-not-exact", f"estimate {got}, exact {tree_n}"))
    else:
        n = len(semantics.configs(case))
        if got < n:
            out.append(("C13.estimate-below-exact", f"estimate {got} < exact {n}"))
    return out


def nontrivial(case):
    return _bool.structure_nontrivial(case["model"] if "edits" in case else case)


def classes(case):
    return _bool.edit_classes(case) if "edits" in case else _bool.structure_classes(case)


SUBS = [
    Sub("large-models", check_large, gen=lambda tier: _bool.large_models(), nontrivial=lambda case: True, classes=_bool.large_classes,
        n={"quick": 60, "thorough": 1500}, essential=["group>=57", "group>=257"]),
    Sub("twin-subtrees", check, gen=lambda tier: _bool.twin_subtree_models(), nontrivial=lambda case: True,
        classes=lambda case: {"twin-subtrees"}, n={"quick": 150, "thorough": 2000}),
    Sub("constraint-lists", check, gen=lambda tier: _bool.constraint_list_models(), nontrivial=nontrivial, classes=classes,
        n={"quick": 200, "thorough": 2500}, essential=["with-ctcs"]),
    Sub("edit-histories", check, gen=lambda tier: _bool.edit_histories(S.BOOLEAN_ANY, 10, with_ctcs=True),
        nontrivial=lambda case: True, classes=classes, n={"quick": 100, "thorough": 1500}, essential=["edit:move"]),
    Sub("shapes", check, enum=_bool.enum_shapes, nontrivial=nontrivial, classes=_bool.structure_classes, exhaustive=True),
    Sub("random-no-ctcs", check, gen=lambda tier: _bool.random_models(False), nontrivial=nontrivial,
        classes=_bool.structure_classes, n={"quick": 800, "thorough": 6000},
        essential=["rel:mutex", "rel:cardinal", "rel:star", "multi-relations-parent"]),
    Sub("random-ctcs", check, gen=lambda tier: _bool.random_models(True, 10), nontrivial=nontrivial,
        classes=_bool.structure_classes, n={"quick": 600, "thorough": 4000}, essential=["with-ctcs"]),
]

MANIFEST = {
    "technique": "exhaustive enumeration of all small feature-tree shapes + Hypothesis random models; oracle = independent brute-force configuration enumerator",
    "level_text": "Exact for every tree shape up to 5 features (quick) / 7 features (thorough); random models up to 12 features beyond that. Differential against an independent brute-force enumerator. Also: models with groups of up to 300 leaves and 33-70 single relations against an exact big-integer counter (cross-checked against brute force on every small case), constraint-list models, and in-place edit histories. A sample of every sub-check additionally runs in a `python -OO` child with the root logger at DEBUG.",
    "level_note": "Trusted: vf/semantics.py (tree rules and propositional semantics), vf/shapes.py enumeration (counts cross-checked: 1,3,21,146,1143,9396,81192).",
}
