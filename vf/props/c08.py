"""C08 - Glencoe round trip returns the same model, at any number of cycles."""
from hypothesis import strategies as st

from vf import build, logic, roundtrip as rt, strategies as S
from vf.oracle import Scratch
from vf.props.c03 import rel_class
from vf.props.c05 import _plain
from vf.runner import Sub

ID = "C08"
RULE = ("Cases are models of the Glencoe fragment (1-14 features with arbitrary Unicode names; each non-leaf feature has single "
        "mandatory/optional children, or one alternative/or/mutex/[a,b] group optionally accompanied by mandatory single "
        "children; 0-4 constraints with distinct names over the eight logical operators) plus a cycle count 2..4. Non-trivial: a "
        "name outside [A-Za-z0-9_]+, a mutex or [a,b] group, a group plus a mandatory sibling, or an XOR/EXCLUDES constraint.")
ASSUMPTIONS = ["constraints are compared positionally (JSON objects keep insertion order) under truth-table equivalence",
               "names never start with an apostrophe; no surrogates/control characters"]


def check(case):
    from flamapy.metamodels.fm_metamodel.transformations import GlencoeReader, GlencoeWriter
    model = case["model"]
    fm0 = build.build(model)
    snap0 = build.snapshot(fm0)
    with Scratch() as sc:
        out, texts, models, obss = rt.run_cycles(
            fm0, lambda p, m: GlencoeWriter(p, m).transform(), lambda p: GlencoeReader(p).transform(),
            sc, "gfm.json", case["cycles"], "C08")
    if build.snapshot(fm0) != snap0:
        out.append(("C08.writer-modified-model", ""))
    if not models:
        return out
    obs = obss[0]
    out += rt.wellformed(obs, "C08")
    out += rt.same_tree(model, obs, "C08")
    got = rt.constraint_exprs(models[0], "C08", out)
    want = [c["ast"] for c in model["ctcs"]]
    if len(got) != len(want):
        out.append(("C08.ctc-count", f"expected {len(want)}, got {len(got)}"))
    else:
        for i, (g, w) in enumerate(zip(got, want)):
            if g is None:
                continue
            try:
                ok = logic.equiv(g, w)
            except (KeyError, ValueError):
                ok = False
            if not ok:
                out.append(("C08.ctc-not-equivalent", f"#{i}: expected {logic.canon(w)}, got {logic.canon(g)}"))
                break
    return out


@st.composite
def cases(draw, max_feats=14):
    return {"model": draw(S.model_specs(S.GLENCOE, 1, max_feats)), "cycles": draw(st.integers(3, 4))}


def _group_plus_mandatory(m):
    for f, _ in build.iter_feats(m["root"]):
        sizes = [len(r["children"]) for r in f["rels"]]
        if any(s >= 2 for s in sizes) and any(s == 1 for s in sizes):
            return True
    return False


def nontrivial(case):
    m = case["model"]
    if any(not _plain(n) for n in build.names(m)) or _group_plus_mandatory(m):
        return True
    for r, _ in build.iter_rels(m["root"]):
        if rel_class(r["min"], r["max"], len(r["children"])) in ("mutex", "cardinal"):
            return True
    return any({"XOR", "EXCLUDES"} & set(logic.ops_of(c["ast"])) for c in m["ctcs"])


def classes(case):
    m = case["model"]
    out = set()
    if any(not _plain(n) for n in build.names(m)):
        out.add("odd-name")
    if _group_plus_mandatory(m):
        out.add("group+mandatory")
    for r, _ in build.iter_rels(m["root"]):
        out.add("rel:" + rel_class(r["min"], r["max"], len(r["children"])))
    for c in m["ctcs"]:
        for o in set(logic.ops_of(c["ast"])):
            out.add("op:" + o)
    return out


@st.composite
def big_cases(draw):
    """Models of several hundred features (files of tens of kilobytes): block-wise or incremental readers/writers."""
    return {"model": draw(S.model_specs(S.GLENCOE, 250, 500, many_ctcs=draw(st.booleans()))), "cycles": 3}


SUBS = [
    Sub("big-models", check, gen=lambda tier: big_cases(), nontrivial=lambda case: True, classes=lambda case: {"big-model"},
        n={"quick": 2, "thorough": 30}, shards={"quick": 8, "thorough": 16}),
    Sub("roundtrip", check, gen=lambda tier: cases(), nontrivial=nontrivial, classes=classes,
        n={"quick": 300, "thorough": 5000},
        essential=["odd-name", "group+mandatory", "rel:mutex", "rel:cardinal", "op:XOR", "op:EXCLUDES"]),
]

MANIFEST = {
    "technique": "property-based round-trip testing: Hypothesis model generator for the Glencoe fragment, n write/read cycles, oracle = generating spec (names, tree, positional truth-table equivalence of constraints) plus byte/observation idempotence",
    "level_text": "Generated Glencoe-fragment models are written and read 2-4 times; cycle 1 is compared with the spec, later cycles byte for byte with the previous one. Sampling only. Also: models of 250-500 features with up to 120 constraints, wide groups, shared-node constraint trees, and the same-path decoys / relative paths / other file system of C01. A sample of every sub-check additionally runs in a `python -OO` child with the root logger at DEBUG.",
    "level_note": "Trusted: vf/build.py, vf/roundtrip.py, vf/logic.py truth tables, Hypothesis.",
}
