"""C16 - tree-shape operations match their definitions on every model."""
import math
import os

from hypothesis import strategies as st

from vf import build, fama, shapes, strategies as S
from vf.oracle import Raised, lib
from vf.props import _bool
from vf.runner import Sub

ID = "C16"
RULE = ("Cases: exhaustively every tree shape with <=5 features (<=6 in thorough) incl. the root-only model; random "
        "boolean_any trees up to 60 (quick) / 200 (thorough) features incl. chains, stars and wide groups; the shipped "
        "FaMa/Betty corpus read by XMLReader (quick: files of <=200 features; thorough: all 1299 up to 20000 features) "
        "with the reference computed on an independent walk of the XML; histories of 1-3 structural edits applied in place to one model object, analysed after every step. Every feature of each model is the argument of "
        "the ancestors operation. Non-trivial: depth >= 3 and a parent mixing mandatory and non-mandatory relations, or "
        "the root-only model; distinct = distinct canonical JSON (corpus: distinct file).")
ASSUMPTIONS = ["definitions are computed on the spec / on vf/fama.py's independent reading of the XML",
               "branching factor: |r - children/non_leaf| <= 0.005 and r has <= 2 decimals; any finite number when there is no non-leaf feature",
               "listings are compared as multisets of names (no order promised) except ancestors (order is part of the claim)"]


def reference(model):
    parent = {}
    kids = {}
    nonmand = {}
    order = []
    stack = [(model["root"], None)]
    while stack:
        f, p = stack.pop()
        order.append(f["name"])
        parent[f["name"]] = p
        ch, var = [], []
        for r in f["rels"]:
            names = [c["name"] for c in r["children"]]
            ch.extend(names)
            if not (len(names) == 1 and (r["min"], r["max"]) == (1, 1)):
                var.extend(names)
            for c in r["children"]:
                stack.append((c, f["name"]))
        kids[f["name"]] = ch
        if var:
            nonmand[f["name"]] = var
    leaves = [n for n in order if not kids[n]]
    depth_of = {}
    for n in order:                       # parents precede children in `order`
        depth_of[n] = 0 if parent[n] is None else depth_of[parent[n]] + 1
    non_leaf = [n for n in order if kids[n]]
    return {"order": order, "parent": parent, "leaves": leaves, "depth": max(depth_of[n] for n in leaves),
            "children": sum(len(kids[n]) for n in non_leaf), "non_leaf": len(non_leaf), "vps": nonmand}


def check_model(fm, model, out, ancestors_limit=None):
    from flamapy.metamodels.fm_metamodel.operations import (
        FMAverageBranchingFactor, FMCountLeafs, FMFeatureAncestors, FMLeafFeatures, FMMaxDepthTree, FMVariationPoints)
    ref = reference(model)

    def run(name, fn):
        got = lib(fn)
        if isinstance(got, Raised):
            out.append((f"C16.{name}.raised:{got.label}", got.text))
            return None
        return got

    # a long-lived object of every operation, executed twice, must agree with a fresh one
    for cls in (FMCountLeafs, FMLeafFeatures, FMMaxDepthTree, FMAverageBranchingFactor, FMVariationPoints):
        fresh = lib(lambda: cls().execute(fm).get_result())
        old_ = lib(lambda: (_bool.long_lived(cls).execute(fm), _bool.long_lived(cls).execute(fm).get_result())[1])
        if isinstance(fresh, Raised) or isinstance(old_, Raised):
            continue

        def norm(v):
            if isinstance(v, list):
                return sorted(f.name for f in v)
            if isinstance(v, dict):
                return {k.name: sorted(x.name for x in vs) for k, vs in v.items()}
            return v
        if norm(fresh) != norm(old_):
            out.append((f"C16.reused-object-differs:{cls.__name__}", ""))

    got = run("count_leafs", lambda: FMCountLeafs().execute(fm).get_result())
    if got is not None and (isinstance(got, bool) or got != len(ref["leaves"])):
        out.append(("C16.count_leafs", f"expected {len(ref['leaves'])}, got {got!r}"))
    got = run("leaf_features", lambda: FMLeafFeatures().execute(fm).get_result())
    if got is not None and sorted(f.name for f in got) != sorted(ref["leaves"]):
        out.append(("C16.leaf_features", f"expected {sorted(ref['leaves'])[:20]}, got {sorted(f.name for f in got)[:20]}"))
    got = run("max_depth", lambda: FMMaxDepthTree().execute(fm).get_result())
    if got is not None and (isinstance(got, bool) or got != ref["depth"]):
        out.append(("C16.max_depth", f"expected {ref['depth']}, got {got!r}"))
    got = run("branching_factor", lambda: FMAverageBranchingFactor().execute(fm).get_result())
    if got is not None:
        if isinstance(got, bool) or not isinstance(got, (int, float)) or not math.isfinite(got):
            out.append(("C16.branching_factor.not-a-number", repr(got)))
        elif ref["non_leaf"]:
            exact = ref["children"] / ref["non_leaf"]
            if abs(got - exact) > 0.005 + 1e-9 or abs(round(got, 2) - got) > 1e-12:
                out.append(("C16.branching_factor", f"expected round({exact}, 2), got {got!r}"))
    got = run("variation_points", lambda: FMVariationPoints().execute(fm).get_result())
    if got is not None:
        if not isinstance(got, dict):
            out.append(("C16.variation_points.not-a-dict", repr(type(got))))
        else:
            seen = {k.name: sorted(v.name for v in vs) for k, vs in got.items()}
            want = {k: sorted(v) for k, v in ref["vps"].items()}
            if seen != want:
                diff = {k: (want.get(k), seen.get(k)) for k in set(want) | set(seen) if want.get(k) != seen.get(k)}
                out.append(("C16.variation_points", f"(expected, got) per feature: {dict(list(diff.items())[:5])}"))
    feats, _ = build.walk_objects(fm)
    op = FMFeatureAncestors()
    todo = feats if ancestors_limit is None or len(feats) <= ancestors_limit else feats[:: max(1, len(feats) // ancestors_limit)]
    for f in todo:
        def anc(f=f):
            op.set_feature(f)
            return op.execute(fm).get_result()
        got = lib(anc)
        if isinstance(got, Raised):
            out.append((f"C16.ancestors.raised:{got.label}", got.text))
            break
        want = []
        p = ref["parent"].get(f.name)
        while p is not None:
            want.append(p)
            p = ref["parent"][p]
        if [a.name for a in got] != want:
            out.append(("C16.ancestors", f"{f.name!r}: expected {want[:10]}, got {[a.name for a in got][:10]}"))
            break


def check(case):
    out = []
    if "corpus" in case:
        from flamapy.metamodels.fm_metamodel.transformations import XMLReader
        path = os.path.join(fama.CORPUS, case["corpus"])
        model = fama.parse(path)
        fm = lib(lambda: XMLReader(path).transform())
        if isinstance(fm, Raised):
            return out               # reader failures on the corpus are C09's business
        check_model(fm, model, out, ancestors_limit=3000)
        return out
    if "deep" in case:
        model, fm = build_deep(case["deep"], case["tail"])
        check_model(fm, model, out, ancestors_limit=50)
        return out
    model = _caterpillar(*case["caterpillar"]) if "caterpillar" in case else case["model"]
    fm = build.build(model)
    check_model(fm, model, out)
    for step, ed in enumerate(case.get("edits", [])):
        # the same object, edited in place and analysed again: the definitions apply to the model as it is now
        _bool.morph_checked(fm, ed["model"])
        sub_out = []
        check_model(fm, ed["model"], sub_out)
        out += [(k.replace("C16.", "C16.after-in-place-edit.", 1), f"step {step} ({ed['label']}): {d}") for k, d in sub_out]
    return out


@st.composite
def big_trees(draw, max_feats):
    shape = draw(st.sampled_from(["random", "random", "chain", "star", "caterpillar"]))
    n = draw(st.one_of(st.integers(1, 3), st.integers(1, max_feats), st.integers(1, max_feats)))
    if shape == "random":
        # the definitions do not mention feature types, feature cardinalities, abstract flags or attributes - so
        # they are drawn: the operations must not let them in
        return {"model": draw(S.model_specs(draw(st.sampled_from([S.BOOLEAN_ANY, S.ANY, S.UVL])), 1, max_feats, with_ctcs=False,
                                            allow_wide=False))}
    feats = [build.feat(f"N{i}") for i in range(n)]
    kinds = st.sampled_from([(1, 1), (0, 1)])
    for i in range(1, n):
        if shape == "chain":
            p = i - 1
        elif shape == "star":
            p = 0
        else:
            p = (i - 1) // 2 * 2 if i % 2 == 0 else max(0, i - 2 + (i % 2) - 1)
            p = min(p, i - 1)
        feats[i]["_p"] = p
    for i in range(n - 1, 0, -1):
        p = feats[i].pop("_p")
        parent = feats[p]
        if shape == "star" and parent["rels"] and draw(st.booleans()):
            r = parent["rels"][-1]
            r["children"].insert(0, feats[i])
            k = len(r["children"])
            r["min"], r["max"] = draw(st.sampled_from([(1, 1), (1, k), (0, 1), (0, k), (k, k)]))
        else:
            lo, hi = draw(kinds)
            parent["rels"].insert(0, build.rel(lo, hi, [feats[i]]))
    return {"model": {"root": feats[0], "ctcs": []}}


def enum_shapes(tier, seed):
    return [{"model": m} for m in shapes.all_specs(6 if tier == "thorough" else 5)]


def enum_deep(tier, seed):
    """Chain-like models whose longest path has 300 / 600 / 800 edges (below the ~990 the library's own recursive
    get_relations can handle under Python's default recursion limit): 'returns a value, without raising, on every
    well-formed model' must not depend on the tree being shallow."""
    return [{"deep": d, "tail": t} for d in (300, 600, 800) for t in (0, 3)]


def build_deep(depth, tail):
    """Iteratively built chain root -> N1 -> ... -> N<depth>, the last node with `tail` optional leaves."""
    from flamapy.metamodels.fm_metamodel.models import Feature, FeatureModel, Relation
    spec_nodes = [build.feat(f"N{i}") for i in range(depth + 1)]
    objs = [Feature(f"N{i}") for i in range(depth + 1)]
    for i in range(depth):
        kind = (1, 1) if i % 2 == 0 else (0, 1)
        spec_nodes[i]["rels"].append(build.rel(kind[0], kind[1], [spec_nodes[i + 1]]))
        objs[i].add_relation(Relation(objs[i], [objs[i + 1]], kind[0], kind[1]))
    for j in range(tail):
        spec_nodes[depth]["rels"].append(build.rel(0, 1, [build.feat(f"T{j}")]))
        objs[depth].add_relation(Relation(objs[depth], [Feature(f"T{j}")], 0, 1))
    return {"root": spec_nodes[0], "ctcs": []}, FeatureModel(objs[0], [])


def enum_rounding(tier, seed):
    """Trees with k non-leaf features and c children where c/k lies within 0.0002 of a x.xx5 rounding boundary
    (the claim is 'rounded to two decimals'; intermediate roundings only show there)."""
    limit = 400 if tier == "thorough" else 150
    out = []
    for k in range(1, limit):
        for c in range(k, min(limit, 12 * k)):
            r = c / k * 100
            frac = r - int(r)
            if abs(frac - 0.5) <= 0.02 and frac != 0.5:
                out.append({"caterpillar": [k, c]})
    if tier != "thorough":
        out = out[int(seed) % 3::3]
    return out


def _caterpillar(k, c):
    """k internal features in a chain, c children in total (extra leaves hang off the internal ones in turn)."""
    inner = [build.feat(f"I{i}") for i in range(k)]
    for i in range(k - 1):
        inner[i]["rels"].append(build.rel(1, 1, [inner[i + 1]]))
    used = k - 1
    inner[-1]["rels"].append(build.rel(0, 1, [build.feat("L0")]))
    used += 1
    j = 0
    while used < c:
        inner[j % k]["rels"].append(build.rel(0, 1, [build.feat(f"L{used}")]))
        used += 1
        j += 1
    return {"root": inner[0], "ctcs": []}


def enum_corpus(tier, seed):
    files = fama.corpus_files(None if tier == "thorough" else 200)
    # big files first so that shards are balanced
    return [{"corpus": p} for p in files]


def _mixed_and_deep(model):
    ref = reference(model)
    if len(ref["order"]) == 1:
        return True
    if ref["depth"] < 3:
        return False
    for f, _ in build.iter_feats(model["root"]):
        kinds = {len(r["children"]) == 1 and (r["min"], r["max"]) == (1, 1) for r in f["rels"]}
        if kinds == {True, False}:
            return True
    return False


def nontrivial(case):
    if "corpus" in case or "deep" in case:
        return True
    return _mixed_and_deep(case["model"])


def classes(case):
    if "deep" in case:
        return {"deep-chain"}
    if "corpus" in case:
        parts = case["corpus"].split(os.sep)
        return {"corpus:" + (parts[2] if "simple_betty_gen_models" in case["corpus"] else parts[0])}
    out = _bool.structure_classes(case["model"])
    n = len(build.names(case["model"]))
    out.add("size:" + ("1" if n == 1 else "<=10" if n <= 10 else "<=50" if n <= 50 else ">50"))
    return out


SUBS = [
    Sub("shapes", check, enum=enum_shapes, nontrivial=nontrivial, classes=classes, exhaustive=True, min_nontrivial=0.0),
    Sub("random-trees", check, gen=lambda tier: big_trees(200 if tier == "thorough" else 60), nontrivial=nontrivial,
        classes=classes, n={"quick": 400, "thorough": 2000}, essential=["size:>50", "root-only"] , min_nontrivial=0.005),
    Sub("edit-histories", check, gen=lambda tier: st.one_of(_bool.edit_histories(S.BOOLEAN_ANY, 12), _bool.edit_histories(S.ANY, 12)), nontrivial=lambda case: True,
        classes=lambda case: {"edit:" + e["label"] for e in case["edits"]}, n={"quick": 150, "thorough": 1500},
        essential=["edit:move", "edit:add-feature", "edit:remove-leaf"]),
    Sub("twin-subtrees", check, gen=lambda tier: _bool.twin_subtree_models().map(lambda m: {"model": m}), nontrivial=lambda case: True,
        classes=lambda case: {"twin-subtrees"}, n={"quick": 100, "thorough": 1500}),
    Sub("deep-chains", check, enum=enum_deep, nontrivial=nontrivial, classes=classes, shards={"quick": 6, "thorough": 6}),
    Sub("rounding-boundaries", check, enum=enum_rounding, nontrivial=lambda case: True,
        classes=lambda case: {"rounding-boundary"}, exhaustive=False),
    Sub("corpus", check, enum=enum_corpus, nontrivial=nontrivial, classes=classes,
        exhaustive={"quick": False, "thorough": True}),
]

MANIFEST = {
    "technique": "exhaustive enumeration of small tree shapes + Hypothesis random large trees + the shipped FaMa/Betty corpus; oracle = the definitions computed directly on the spec / on an independent reading of the XML",
    "level_text": "Each of the six operations is compared with its definition on every small shape (exhaustive to 5/6 features), on random trees to 60/200 features, and on the corpus (<=200-feature files quick, all 1299 files thorough), with every feature as ancestors argument. Also: typed models with feature cardinalities/attributes, in-place edit histories (1-3 structural edits on one object, analysed after every step), caterpillar trees at rounding boundaries, chains of 300-800 edges. A sample of every sub-check additionally runs in a `python -OO` child with the root logger at DEBUG.",
    "level_note": "Trusted: reference() in vf/props/c16.py, vf/fama.py (independent FaMa reading), vf/shapes.py.",
}
