"""C12 - serialisation is pure, deterministic and returns what it wrote (UTF-8)."""
import hashlib
import json
import os
import subprocess
import sys

from hypothesis import strategies as st

from vf import build, env, strategies as S
from vf.oracle import Raised, Scratch, lib
from vf.props import c10, c11
from vf.runner import Sub

ID = "C12"
RULE = ("A case is a batch of 8 models, one per writer (UVL, AFM, JSON, Glencoe, FeatureIDE, SPLOT, Clafer, propositional), each "
        "drawn from that writer's own fragment (non-ASCII names wherever the format allows, groups of >= 3 children, constraints "
        "needing CNF conversion), plus 3 process environments drawn from {PYTHONHASHSEED 0/1/4242/seed-derived} x {inherit, LC_ALL=C "
        "with PYTHONCOERCECLOCALE=0 PYTHONUTF8=0 (ASCII default encoding), PYTHONUTF8=1, LC_ALL=POSIX}; the ASCII environment is "
        "always among them and also reads every readable format back. In-process: snapshot unchanged, returned value == file "
        "content, three repeated calls identical, path=None returns the same value. Cross-process: SHA-256 of every output equal "
        "in all environments and equal to the in-process digest. Non-trivial: batch with a non-ASCII name, or a group of >= 3 "
        "children fed to PL/SPLOT/Clafer, or a constraint rewritten to CNF (XOR/EQUIVALENCE/depth >= 2).")
ASSUMPTIONS = ["only the locales C, C.utf8 and POSIX are installed; other platforms' default encodings are approximated by the ASCII setting (the strictest)",
               "each writer is given a model inside its own fragment (purity/determinism, not expressiveness, is tested)"]

WRITERS = ["uvl", "afm", "json", "glencoe", "featureide", "splot", "clafer", "pl"]
READABLE = ["uvl", "afm", "json", "glencoe", "featureide"]
ASCII_ENV = {"LC_ALL": "C", "PYTHONCOERCECLOCALE": "0", "PYTHONUTF8": "0", "LANG": "C"}
LOCALES = {"inherit": {}, "ascii": ASCII_ENV, "utf8mode": {"PYTHONUTF8": "1"}, "posix": {"LC_ALL": "POSIX", "PYTHONCOERCECLOCALE": "0"}}


def profile_for(w):
    return {"uvl": S.UVL, "afm": S.AFM, "json": S.JSON, "glencoe": S.GLENCOE, "featureide": S.FEATUREIDE,
            "splot": c10.PROFILE, "clafer": c11.PROFILE, "pl": c10.PROFILE}[w]


def writer_cls(w):
    import flamapy.metamodels.fm_metamodel.transformations as T
    from flamapy.metamodels.fm_metamodel.transformations.pl_writer import PLWriter
    return {"uvl": T.UVLWriter, "afm": T.AFMWriter, "json": T.JSONWriter, "glencoe": T.GlencoeWriter,
            "featureide": T.FeatureIDEWriter, "splot": T.SPLOTWriter, "clafer": T.ClaferWriter, "pl": PLWriter}[w]


@st.composite
def cases(draw):
    items = []
    for w in WRITERS:
        m = draw(S.model_specs(profile_for(w), 2 if w == "afm" else 1, 8))
        items.append({"writer": w, "model": m})
    # purity and determinism do not depend on expressiveness: every writer except AFM (whose attributes have
    # another shape) also gets a model from the broad JSON profile; if it cannot write it in-process the item
    # is dropped by the oracle
    for w in WRITERS:
        if w != "afm" and draw(st.booleans()):
            fm_ = draw(S.model_specs(S.JSON, 1, 7, allow_wide=False))
            if len(fm_["ctcs"]) >= 2 and draw(st.integers(0, 2)) == 0:
                # two constraints under one name (the AFM reader names constraints after their text, so a file that
                # states a constraint twice yields this): a writer keyed on names must still leave the model alone
                fm_["ctcs"][-1]["name"] = fm_["ctcs"][0]["name"]
            if draw(st.integers(0, 3)) == 0:
                # values a writer cannot express must make it raise or be written somehow - never be 'repaired' in place
                fm_["root"]["attrs"].append({"name": "nf", "value": draw(st.sampled_from([
                    [{"$float": "0.5"}, {"$float": "inf"}], {"k": {"$float": "nan"}}, {"$float": "-inf"},
                    [[{"$float": "inf"}]], {"a": [1, {"$float": "nan"}]}]))})
            items.append({"writer": w, "model": fm_, "foreign": True})
    if False:
        items.append(None)
    envs = [{"hashseed": draw(st.sampled_from(["0", "1", "4242", "derived"])), "locale": "ascii"}]
    for _ in range(2):
        envs.append({"hashseed": draw(st.sampled_from(["0", "1", "4242", "derived"])),
                     "locale": draw(st.sampled_from(["inherit", "utf8mode", "posix", "ascii"]))})
    return {"items": items, "envs": envs, "derived_seed": draw(st.integers(2, 2**31 - 1))}


def sha(x):
    return hashlib.sha256(x if isinstance(x, bytes) else x.encode("utf-8")).hexdigest()


def run_worker(batch_path, e, derived):
    environ = dict(os.environ)
    for k in ("LC_ALL", "LANG", "LC_CTYPE", "PYTHONUTF8", "PYTHONCOERCECLOCALE", "PYTHONIOENCODING"):
        environ.pop(k, None)
    environ.update(LOCALES[e["locale"]])
    environ["PYTHONHASHSEED"] = str(derived) if e["hashseed"] == "derived" else e["hashseed"]
    environ["PYTHONPATH"] = env.VERIF_DIR + os.pathsep + environ.get("PYTHONPATH", "")
    proc = subprocess.run([sys.executable, "-m", "vf.c12_worker", batch_path], env=environ, capture_output=True,
                          timeout=300, cwd=env.VERIF_DIR)
    if proc.returncode != 0:
        raise RuntimeError(f"worker failed under {e}: {proc.stderr.decode('utf-8', 'replace')[-800:]}")
    return json.loads(proc.stdout.decode("utf-8"))


def check(case):
    out = []
    digests = []
    with Scratch() as sc:
        for i, item in enumerate(case["items"]):
            w = item["writer"]
            cls = writer_cls(w)
            fm = build.build(item["model"])
            before = build.snapshot(fm)
            rets = []
            datas = []
            failed = False
            for rep in range(3):
                p = sc.path(f"o{i}_{rep}")
                r = lib(lambda: cls(p, fm).transform())
                if isinstance(r, Raised):
                    if not item.get("foreign"):
                        out.append((f"C12.{w}.writer-raised:{r.label}", r.text))
                    failed = True
                    break
                rets.append(r)
                with open(p, "rb") as fh:
                    datas.append(fh.read())
            if failed:
                digests.append(None)
                continue
            if build.snapshot(fm) != before:
                out.append((f"C12.{w}.writer-modified-model", ""))
            r0, d0 = rets[0], datas[0]
            if isinstance(r0, bytes):
                if r0 != d0:
                    out.append((f"C12.{w}.returned!=file", ""))
            else:
                try:
                    if not isinstance(r0, str) or r0 != d0.decode("utf-8"):
                        out.append((f"C12.{w}.returned!=file", ""))
                except UnicodeDecodeError:
                    out.append((f"C12.{w}.file-not-utf8", ""))
            if any(d != d0 for d in datas) or any(r != r0 for r in rets):
                out.append((f"C12.{w}.repeated-calls-differ", ""))
            rn = lib(lambda: cls(None, fm).transform())
            if isinstance(rn, Raised):
                out.append((f"C12.{w}.path-none-raised:{rn.label}", rn.text))
            elif rn != r0:
                out.append((f"C12.{w}.path-none-differs", ""))
            digests.append(sha(d0))
            # output is a function of the model alone: after an in-place edit the same writer object/class must
            # produce what it produces for an independently built model with that edit (no identity-keyed memo)
            if not item.get("foreign"):
                import copy
                edited = copy.deepcopy(item["model"])
                edited["root"]["name"] = edited["root"]["name"] + "Zz"
                if edited["root"]["name"] not in build.names(item["model"]):
                    fm.root.name = edited["root"]["name"]
                    got = lib(lambda: cls(None, fm).transform())
                    want = lib(lambda: cls(None, build.build(edited)).transform())
                    if isinstance(got, Raised) != isinstance(want, Raised) or (
                            not isinstance(got, Raised) and got != want):
                        out.append((f"C12.{w}.in-place-edit-not-reflected", "root renamed in place"))
        batch_path = sc.path("batch.json")
        with open(batch_path, "w", encoding="utf-8") as fh:
            json.dump({"items": case["items"], "read_back": False}, fh)
        batch_rb = sc.path("batch_rb.json")
        with open(batch_rb, "w", encoding="utf-8") as fh:
            json.dump({"items": case["items"], "read_back": True}, fh)
        for k, e in enumerate(case["envs"]):
            res = run_worker(batch_rb if (e["locale"] == "ascii" and k == 0) else batch_path, e, case["derived_seed"])
            if e["locale"] == "ascii" and res["preferred_encoding"].lower() not in ("ansi_x3.4-1968", "ascii", "us-ascii", "646"):
                raise RuntimeError(f"ASCII environment not effective: {res['preferred_encoding']}")
            for i, (item, r) in enumerate(zip(case["items"], res["items"])):
                w = item["writer"]
                tag = f"hashseed={e['hashseed']},locale={e['locale']}"
                if "write_error" in r:
                    if digests[i] is not None:
                        out.append((f"C12.{w}.fails-in-other-environment", f"{tag}: {r['write_error']}"))
                    continue
                if digests[i] is not None and r["file_sha"] != digests[i]:
                    out.append((f"C12.{w}.output-differs-across-environments", tag))
                if r["file_sha"] != r["ret_sha"] and w != "featureide":
                    out.append((f"C12.{w}.returned!=file", tag))
                if "read_error" in r and not item.get("foreign"):
                    out.append((f"C12.{w}.read-back-fails-in-environment", f"{tag}: {r['read_error']}"))
                elif "names" in r and not item.get("foreign"):
                    want = sorted(build.names(item["model"]))
                    if r["names"] != want:
                        out.append((f"C12.{w}.names-after-read-back", f"{tag}: expected {want[:4]}, got {r['names'][:4]}"))
                    if w == "afm":
                        want_s = sorted(str(x) for f, _ in build.iter_feats(item["model"]["root"]) for a in f["attrs"]
                                        for x in ((a.get("elements") or []) + [a["default"]]))
                        if r["attr_strings"] != want_s:
                            out.append((f"C12.{w}.attribute-strings-after-read-back", tag))
    return list(dict.fromkeys(out))


def _nonascii(case):
    return any(not n.isascii() for it in case["items"] for n in build.names(it["model"]))


def nontrivial(case):
    from vf import logic
    if _nonascii(case):
        return True
    for it in case["items"]:
        if it["writer"] in ("pl", "splot", "clafer"):
            if any(len(r["children"]) >= 3 for r, _ in build.iter_rels(it["model"]["root"])):
                return True
            for c in it["model"]["ctcs"]:
                if {"XOR", "EQUIVALENCE"} & set(logic.ops_of(c["ast"])) or build.expr_depth(c["ast"]) >= 2:
                    return True
    return False


def classes(case):
    out = set()
    if _nonascii(case):
        out.add("non-ascii-name")
    for e in case["envs"]:
        out.add("env:hashseed=" + e["hashseed"])
        out.add("env:locale=" + e["locale"])
    for it in case["items"]:
        if it["writer"] in ("pl", "splot", "clafer") and any(len(r["children"]) >= 3 for r, _ in build.iter_rels(it["model"]["root"])):
            out.add("group>=3:" + it["writer"])
    return out


SUBS = [
    Sub("matrix", check, gen=lambda tier: cases(), nontrivial=nontrivial, classes=classes,
        n={"quick": 8, "thorough": 120},
        essential=["non-ascii-name", "env:locale=ascii", "env:hashseed=derived", "group>=3:pl"]),
]

MANIFEST = {
    "technique": "property-based testing over models x process environments: in-process purity/idempotence checks plus a subprocess matrix (PYTHONHASHSEED x locale/default-encoding) comparing SHA-256 digests of all eight writers' outputs; ASCII-locale read-back of the readable formats",
    "level_text": "Generated batches of eight models (one per writer) are serialised in-process three times and in three fresh interpreter processes under drawn hash seeds and locale/encoding settings; all digests must agree, the model must be untouched, the returned value must equal the file, and the ASCII-locale process must read the files back with the same names. Sampling over models and over the environment matrix. Also: foreign models with repeated constraint names and with non-finite floats inside list/dict values. A sample of every sub-check additionally runs in a `python -OO` child with the root logger at DEBUG.",
    "level_note": "Trusted: vf/c12_worker.py, the environment switches (LC_ALL=C PYTHONCOERCECLOCALE=0 PYTHONUTF8=0 gives an ASCII preferred encoding - asserted at run time), sha256.",
}
