"""C07 - FeatureIDE round trip returns the same model, at any number of cycles."""
from hypothesis import strategies as st

from vf import build, logic, roundtrip as rt, strategies as S
from vf.oracle import Scratch
from vf.props.c03 import rel_class
from vf.props.c05 import _plain
from vf.runner import Sub

ID = "C07"
RULE = ("Cases are models of the FeatureIDE fragment (1-14 features with XML-representable Unicode names incl. & < > \" ' and "
        "spaces; every non-leaf feature has only single mandatory/optional children or is exactly one or-/alternative group; "
        "abstract flags; 0-6 constraints over not/and/or/implies/iff/requires/excludes or a single literal, >= 20 % of cases "
        "without constraints) plus a cycle count 3..4. Non-trivial: name needing XML escaping or outside [A-Za-z0-9_]+, or-/alt "
        "group below depth 1, EXCLUDES/IFF/literal constraint, or zero constraints.")
ASSUMPTIONS = ["constraints are matched one-to-one under truth-table equivalence (eq may come back as two implications)",
               "texts are compared from cycle 2 on (cycle 1 may normalise equivalent forms), observations from cycle 1 on"]


def check(case):
    from flamapy.metamodels.fm_metamodel.transformations import FeatureIDEReader, FeatureIDEWriter
    model = case["model"]
    fm0 = build.build(model)
    snap0 = build.snapshot(fm0)
    with Scratch() as sc:
        out, texts, models, obss = rt.run_cycles(
            fm0, lambda p, m: FeatureIDEWriter(p, m).transform(), lambda p: FeatureIDEReader(p).transform(),
            sc, "xml", case["cycles"], "C07", binary=True)
    if build.snapshot(fm0) != snap0:
        out.append(("C07.writer-modified-model", ""))
    if not models:
        return out
    obs = obss[0]
    out += rt.wellformed(obs, "C07")
    out += rt.same_tree(model, obs, "C07")
    out += rt.compare_flags_attrs(model, obs, "C07", check_types=False, check_fcard=False, check_attrs=False)
    got = rt.constraint_exprs(models[0], "C07", out)
    if None not in got:
        bad = logic.match_lists([c["ast"] for c in model["ctcs"]], got)
        if bad:
            out.append(("C07.ctcs-not-equivalent", bad[:300]))
    return out


@st.composite
def cases(draw, max_feats=14):
    m = draw(S.model_specs(S.FEATUREIDE, 1, max_feats))
    if draw(st.integers(0, 4)) == 0:
        m["ctcs"] = []
    return {"model": m, "cycles": draw(st.integers(3, 4))}


def _deep_group(m):
    def rec(f, d):
        for r in f["rels"]:
            if len(r["children"]) >= 2 and d >= 1:
                return True
            if any(rec(c, d + 1) for c in r["children"]):
                return True
        return False
    return rec(m["root"], 0)


XML_SPECIAL = set("&<>\"'")


def nontrivial(case):
    m = case["model"]
    if not m["ctcs"] or _deep_group(m):
        return True
    if any(not _plain(n) for n in build.names(m)):
        return True
    return any(c["ast"][0] == "T" or {"EXCLUDES", "EQUIVALENCE"} & set(logic.ops_of(c["ast"])) for c in m["ctcs"])


def classes(case):
    m = case["model"]
    out = set()
    if any(XML_SPECIAL & set(n) for n in build.names(m)):
        out.add("xml-special-name")
    if any(not _plain(n) for n in build.names(m)):
        out.add("odd-name")
    if _deep_group(m):
        out.add("deep-group")
    if not m["ctcs"]:
        out.add("no-ctcs")
    for r, _ in build.iter_rels(m["root"]):
        out.add("rel:" + rel_class(r["min"], r["max"], len(r["children"])))
    for c in m["ctcs"]:
        if c["ast"][0] == "T":
            out.add("literal-ctc")
        for o in set(logic.ops_of(c["ast"])):
            out.add("op:" + o)
    for f, _ in build.iter_feats(m["root"]):
        if f["abstract"]:
            out.add("abstract")
    return out


@st.composite
def big_cases(draw):
    """Models of several hundred features (files of tens of kilobytes): block-wise or incremental readers/writers."""
    return {"model": draw(S.model_specs(S.FEATUREIDE, 250, 500, many_ctcs=draw(st.booleans()))), "cycles": 3}


SUBS = [
    Sub("big-models", check, gen=lambda tier: big_cases(), nontrivial=lambda case: True, classes=lambda case: {"big-model"},
        n={"quick": 2, "thorough": 30}, shards={"quick": 8, "thorough": 16}),
    Sub("roundtrip", check, gen=lambda tier: cases(), nontrivial=nontrivial, classes=classes,
        n={"quick": 250, "thorough": 4000},
        essential=["xml-special-name", "odd-name", "deep-group", "no-ctcs", "literal-ctc", "op:EXCLUDES",
                   "op:EQUIVALENCE", "abstract", "rel:alternative", "rel:or"]),
]

MANIFEST = {
    "technique": "property-based round-trip testing: Hypothesis model generator for the FeatureIDE fragment, n write/read cycles, oracle = generating spec (names, tree, abstract flags, one-to-one truth-table equivalence of constraints) plus byte/observation idempotence",
    "level_text": "Generated FeatureIDE-fragment models (XML-special names, zero constraints, literal constraints included) are written and read 3-4 times; cycle 1 is compared with the spec, later cycles with the previous one. Sampling only. Also: models of 250-500 features with up to 120 constraints, wide groups, names with XML-legal control characters, comment/CDATA/entity look-alikes, and the same-path decoys / relative paths / other file system of C01. A sample of every sub-check additionally runs in a `python -OO` child with the root logger at DEBUG.",
    "level_note": "Trusted: vf/build.py, vf/roundtrip.py, vf/logic.py (bipartite matching under truth-table equivalence), Hypothesis.",
}
