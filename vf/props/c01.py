"""C01 - UVL round trip returns the same model, at any number of cycles."""
import re

from hypothesis import strategies as st

from vf import build, logic, roundtrip as rt, strategies as S
from vf.oracle import Scratch
from vf.props.c03 import rel_class
from vf.runner import Sub

ID = "C01"
RULE = ("Cases are models of the UVL fragment: 1-25 features with unique names made of anything a quoted UVL identifier can carry "
        "(spaces, punctuation other than '.' and '\"', UVL keywords, the library's operator words, leading digit/underscore, "
        "non-ASCII); any mix of mandatory/optional/or/alternative/[a..b]/[a..*] relations under one parent; Boolean/Integer/Real/"
        "String features; feature cardinalities; abstract flags; attribute values None/bool/int/plain float/str/list/nested map; "
        "constraints over ! & | => <=> requires excludes, comparisons over + - * / trees of attribute references and literals, "
        "two-argument sum/avg; cycle count 3..5. Non-trivial: a name that is not a plain identifier or is a keyword/operator word, "
        "a non-Boolean feature, a feature cardinality, an attribute, an [a..b]/[a..*] group, a constraint of depth >= 2 or with a comparison.")
ASSUMPTIONS = ["names contain no '\"', '.', control characters or surrogates and do not start with an apostrophe; attribute strings are non-empty without apostrophe, dot, newline (STRING token)",
               "constraints are matched one-to-one under truth-table equivalence with comparison sub-trees as structural atoms",
               "texts are compared from cycle 2 on, observations from cycle 1 on"]

WORDS = set(S.UVL_KEYWORDS) | set(S.OPERATOR_WORDS)
PLAIN = re.compile(r"^[A-Za-z][A-Za-z0-9_]*$")


def check(case):
    from flamapy.metamodels.fm_metamodel.transformations import UVLReader, UVLWriter
    model = case["model"]
    fm0 = build.build(model)
    snap0 = build.snapshot(fm0)
    with Scratch() as sc:
        out, texts, models, obss = rt.run_cycles(
            fm0, lambda p, m: UVLWriter(p, m).transform(), lambda p: UVLReader(p).transform(),
            sc, "uvl", case["cycles"], "C01")
    if build.snapshot(fm0) != snap0:
        out.append(("C01.writer-modified-model", ""))
    if not models:
        return out
    obs = obss[0]
    out += rt.wellformed(obs, "C01")
    out += rt.same_tree(model, obs, "C01")
    out += rt.compare_flags_attrs(model, obs, "C01")
    got = rt.constraint_exprs(models[0], "C01", out)
    if None not in got:
        bad = logic.match_lists([c["ast"] for c in model["ctcs"]], got)
        if bad:
            out.append(("C01.ctcs-not-equivalent", bad[:400]))
    return out


@st.composite
def cases(draw, max_feats):
    m_ = draw(S.model_specs(S.UVL, 1, max_feats))
    if draw(st.integers(0, 9)) == 0:
        S.concatenation_twins(draw, m_)
    return {"model": m_, "cycles": draw(st.integers(3, 5))}


def _odd(n):
    return not PLAIN.match(n) or n in WORDS


def nontrivial(case):
    m = case["model"]
    for f, _ in build.iter_feats(m["root"]):
        if _odd(f["name"]) or f["ftype"] != "BOOLEAN" or f["fcard"] or f["attrs"]:
            return True
    for r, _ in build.iter_rels(m["root"]):
        if r["max"] == -1 or rel_class(r["min"], r["max"], len(r["children"])) in ("mutex", "cardinal", "other1"):
            return True
    return any(build.expr_depth(c["ast"]) >= 2 or not logic.is_logical(c["ast"]) for c in m["ctcs"])


def classes(case):
    m = case["model"]
    out = set()
    for f, _ in build.iter_feats(m["root"]):
        n = f["name"]
        if n in S.UVL_KEYWORDS:
            out.add("name:keyword")
        elif n in S.OPERATOR_WORDS or any(w in n.split() for w in ("AND", "OR", "NOT", "XOR", "IMPLIES")):
            out.add("name:operator-word")
        elif not PLAIN.match(n):
            out.add("name:needs-quotes" if n.isascii() else "name:non-ascii")
        if n[:1].isdigit() or n[:1] == "_":
            out.add("name:leading-digit-or-underscore")
        if f["ftype"] != "BOOLEAN":
            out.add("typed")
        if f["fcard"]:
            out.add("fcard")
        if f["abstract"]:
            out.add("abstract")
        for a in f["attrs"]:
            v = a["value"]
            out.add("attr:" + ("none" if v is None else "list" if isinstance(v, list) else
                               "float" if isinstance(v, dict) and set(v) == {"$float"} else
                               "map" if isinstance(v, dict) else type(v).__name__))
    for r, _ in build.iter_rels(m["root"]):
        out.add("rel:" + ("star" if r["max"] == -1 else rel_class(r["min"], r["max"], len(r["children"]))))
    for c in m["ctcs"]:
        e = c["ast"]
        out.add("ctc:" + ("aggregate" if logic.is_aggregation(e) else "arithmetic" if logic.is_arithmetic(e) else "logical"))
        for o in set(logic.ops_of(e)):
            out.add("op:" + o)
    return out


@st.composite
def big_cases(draw):
    """Models of several hundred features (files of tens of kilobytes): block-wise or incremental readers/writers."""
    return {"model": draw(S.model_specs(S.UVL, 80, 140, many_ctcs=draw(st.booleans()))), "cycles": 3}


SUBS = [
    Sub("big-models", check, gen=lambda tier: big_cases(), nontrivial=lambda case: True, classes=lambda case: {"big-model"},
        n={"quick": 1, "thorough": 30}, shards={"quick": 8, "thorough": 16}),
    Sub("roundtrip", check, gen=lambda tier: cases(25 if tier == "thorough" else 12), nontrivial=nontrivial, classes=classes,
        n={"quick": 100, "thorough": 1200},
        essential=["name:keyword", "name:operator-word", "name:needs-quotes", "name:non-ascii",
                   "name:leading-digit-or-underscore", "typed", "fcard", "abstract", "attr:list", "attr:map", "attr:str",
                   "attr:float", "attr:bool", "attr:none", "rel:star", "rel:cardinal", "rel:mutex", "ctc:arithmetic",
                   "ctc:aggregate", "op:EXCLUDES", "op:REQUIRES", "op:EQUIVALENCE"]),
]

MANIFEST = {
    "technique": "property-based round-trip testing: Hypothesis model generator for the UVL fragment, n write/read cycles, oracle = generating spec (names, tree, flags, types, cardinalities, type-strict attribute values, one-to-one truth-table equivalence of constraints with structural comparison atoms) plus byte/observation idempotence",
    "level_text": "Generated UVL-fragment models (keyword/operator-word/odd/non-ASCII names, typed features, cardinalities, nested attribute values, logical/arithmetic/aggregate constraints) are written and read 3-5 times; cycle 1 is compared with the spec, later cycles with the previous one. Sampling only. Also: models of 80-140 features with up to 120 constraints, wide groups (10-24 members, multi-digit bounds), constraint trees with shared Node objects, long declaration lines, and - at the same path, before the first cycle - a decoy model, a failing call and a type-confused twin; a quarter of the cases write to a bare relative path, a third to another file system. A sample of every sub-check additionally runs in a `python -OO` child with the root logger at DEBUG.",
    "level_note": "Trusted: vf/build.py, vf/roundtrip.py, vf/logic.py, Hypothesis; the UVL lexical facts in DESIGN Appendix A for the generators.",
}
