"""C17 - the metrics report is total, self-consistent and agrees with the operations."""
import math
import statistics

from hypothesis import strategies as st

from vf import build, logic, strategies as S
from vf.oracle import Raised, lib
from vf.props import _bool
from vf.props.c03 import rel_class
from vf.runner import Sub

ID = "C17"
RULE = ("A case is a history: 1-3 Boolean models (boolean_any profile: all relation kinds, mixed decompositions, "
        "abstract features, 0-5 logical constraints incl. the documented simple forms, the root-only model) and 1-5 "
        "steps (model index, metric filter = None or a random subset of the 40 metric method names, shared FMMetrics "
        "object or fresh one). After every step the report is compared with forty reference functions computed from "
        "the spec, with the identities of the statement, with the stand-alone operations, and (shared object) with the "
        "report of a fresh object. Non-trivial: a model with a mixed decomposition (group + single child under one "
        "parent), or no constraints, or a single feature, or >=2 analyses on the shared object; distinct = distinct JSON.")
ASSUMPTIONS = [
    "metric names and the ratio denominators are taken from the metric definitions in fm_metrics.py (DESIGN C17 table)",
    "listings are compared as multisets; constraint listings by which constraints they contain (str() of the same objects)",
    "min children per feature on a model without non-leaf features: any finite number is accepted",
    "pseudo-/strict-complex listings are compared with the per-constraint predicates (their semantics is C18's job)",
]

# method name -> (display name, denominator key or None, precision)
METRICS = {
    "features": ("Features", None), "abstract_features": ("Abstract features", "features"),
    "concrete_features": ("Concrete features", "features"), "leaf_features": ("Leaf features", "features"),
    "compound_features": ("Compound features", "features"),
    "concrete_compound_features": ("Concrete compound features", "concrete_features"),
    "concrete_leaf_features": ("Concrete leaf features", "concrete_features"),
    "abstract_compound_features": ("Abstract compound features", "abstract_features"),
    "abstract_leaf_features": ("Abstract leaf features", "abstract_features"),
    "tree_relationships": ("Tree relationships", None), "root_feature": ("Root feature", "features"),
    "top_features": ("Top features", "features"), "solitary_features": ("Solitary features", "features"),
    "grouped_features": ("Grouped features", "features"), "mandatory_features": ("Mandatory features", "solitary_features"),
    "optional_features": ("Optional features", "solitary_features"), "feature_groups": ("Feature groups", "tree_relationships"),
    "alternative_groups": ("Alternative groups", "feature_groups"), "or_groups": ("Or groups", "feature_groups"),
    "mutex_groups": ("Mutex groups", "feature_groups"), "cardinality_groups": ("Cardinality groups", "feature_groups"),
    "branching_factor": ("Branching factor", None), "min_children_per_feature": ("Min children per feature", None),
    "max_children_per_feature": ("Max children per feature", None), "avg_children_per_feature": ("Avg children per feature", None),
    "depth_tree": ("Depth of tree", None), "max_depth_tree": ("Max depth of tree", None),
    "mean_depth_tree": ("Mean depth of tree", None), "median_depth_tree": ("Median depth of tree", None),
    "cross_tree_constraints": ("Cross-tree constraints", None), "simple_constraints": ("Simple constraints", "cross_tree_constraints"),
    "requires_constraints": ("Requires constraints", "simple_constraints"),
    "excludes_constraints": ("Excludes constraints", "simple_constraints"),
    "complex_constraints": ("Complex constraints", "cross_tree_constraints"),
    "pseudo_complex_constraints": ("Pseudo-complex constraints", "complex_constraints"),
    "strict_complex_constraints": ("Strict-complex constraints", "complex_constraints"),
    "min_constraints_per_feature": ("Min constraints per feature", None),
    "max_constraints_per_feature": ("Max constraints per feature", None),
    "avg_constraints_per_feature": ("Avg constraints per feature", None),
    "extra_constraint_representativeness": ("Features in constraints", "features"),
}
PRECISION = {"extra_constraint_representativeness": 2}


def is_requires_form(e):
    if e[0] in ("REQUIRES", "IMPLIES"):
        return e[1][0] == "T" and e[2][0] == "T"
    if e[0] == "OR":
        nl = e[1][0] == "NOT" and e[1][1][0] == "T"
        nr = e[2][0] == "NOT" and e[2][1][0] == "T"
        return (nl and e[2][0] == "T") or (nr and e[1][0] == "T")
    return False


def is_excludes_form(e):
    if e[0] == "EXCLUDES":
        return e[1][0] == "T" and e[2][0] == "T"
    if e[0] in ("REQUIRES", "IMPLIES"):
        return e[1][0] == "T" and e[2][0] == "NOT" and e[2][1][0] == "T"
    if e[0] == "OR":
        return all(x[0] == "NOT" and x[1][0] == "T" for x in (e[1], e[2]))
    return False


def reference(model):
    """metric method -> {'list': sorted names | None, 'value': scalar | None, 'ctc_idx': [..] | None}"""
    feats = [(f, p) for f, p in build.iter_feats(model["root"])]
    names = [f["name"] for f, _ in feats]
    rels = [(r, o) for r, o in build.iter_rels(model["root"])]
    in_rel = {}
    for r, o in rels:
        for c in r["children"]:
            in_rel[c["name"]] = r
    klass = {id(r): rel_class(r["min"], r["max"], len(r["children"])) for r, _ in rels}
    ref = {}

    def L(key, xs):
        ref[key] = {"list": sorted(xs)}

    L("features", names)
    L("abstract_features", [f["name"] for f, _ in feats if f["abstract"]])
    L("concrete_features", [f["name"] for f, _ in feats if not f["abstract"]])
    L("leaf_features", [f["name"] for f, _ in feats if not f["rels"]])
    L("compound_features", [f["name"] for f, _ in feats if f["rels"]])
    L("concrete_compound_features", [f["name"] for f, _ in feats if not f["abstract"] and f["rels"]])
    L("concrete_leaf_features", [f["name"] for f, _ in feats if not f["abstract"] and not f["rels"]])
    L("abstract_compound_features", [f["name"] for f, _ in feats if f["abstract"] and f["rels"]])
    L("abstract_leaf_features", [f["name"] for f, _ in feats if f["abstract"] and not f["rels"]])
    ref["tree_relationships"] = {"count": len(rels)}
    ref["root_feature"] = {"value": model["root"]["name"], "size": 1}
    L("top_features", [c["name"] for r in model["root"]["rels"] for c in r["children"]])
    L("solitary_features", [n for n in names if n in in_rel and len(in_rel[n]["children"]) == 1])
    L("grouped_features", [n for n in names if n in in_rel and len(in_rel[n]["children"]) >= 2])
    L("mandatory_features", [n for n in names if n in in_rel and klass[id(in_rel[n])] == "mandatory"])
    L("optional_features", [n for n in names if n in in_rel and klass[id(in_rel[n])] == "optional"])
    L("feature_groups", [f["name"] for f, _ in feats if any(len(r["children"]) >= 2 for r in f["rels"])])
    for key, k in (("alternative_groups", "alternative"), ("or_groups", "or"), ("mutex_groups", "mutex"),
                   ("cardinality_groups", "cardinal")):
        L(key, [f["name"] for f, _ in feats if any(klass[id(r)] == k for r in f["rels"])])
    nchildren = {f["name"]: sum(len(r["children"]) for r in f["rels"]) for f, _ in feats}
    nonleaf = [n for n in names if nchildren[n]]
    total = sum(nchildren.values())
    ref["branching_factor"] = {"approx": (total / len(nonleaf)) if nonleaf else None, "tol": 0.005}
    ref["min_children_per_feature"] = {"value": min(nchildren[n] for n in nonleaf)} if nonleaf else {"any_number": True}
    ref["max_children_per_feature"] = {"value": max(nchildren.values())}
    ref["avg_children_per_feature"] = {"approx": total / len(names), "tol": 0.005}
    depth = {}
    for f, p in feats:
        depth[f["name"]] = 0 if p is None else depth[p["name"]] + 1
    leaf_depths = [depth[f["name"]] for f, _ in feats if not f["rels"]]
    ref["depth_tree"] = {"value": max(leaf_depths)}
    ref["max_depth_tree"] = {"value": max(leaf_depths)}
    ref["mean_depth_tree"] = {"approx": statistics.mean(leaf_depths), "tol": 0.005}
    ref["median_depth_tree"] = {"approx": statistics.median(leaf_depths), "tol": 0.005}
    ctcs = [c["ast"] for c in model["ctcs"]]
    req = [i for i, e in enumerate(ctcs) if is_requires_form(e)]
    exc = [i for i, e in enumerate(ctcs) if is_excludes_form(e)]
    simple = sorted(set(req) | set(exc))
    cplx = [i for i, e in enumerate(ctcs) if logic.is_logical(e) and i not in simple]
    ref["cross_tree_constraints"] = {"ctc_idx": list(range(len(ctcs)))}
    ref["simple_constraints"] = {"ctc_idx": simple}
    ref["requires_constraints"] = {"ctc_idx": req}
    ref["excludes_constraints"] = {"ctc_idx": exc}
    ref["complex_constraints"] = {"ctc_idx": cplx}
    ref["pseudo_complex_constraints"] = {"ctc_pred": "is_pseudocomplex_constraint"}
    ref["strict_complex_constraints"] = {"ctc_pred": "is_strictcomplex_constraint"}
    per_feature = [sum(n in logic.refs(e) for e in ctcs) for n in names]
    ref["min_constraints_per_feature"] = {"value": min(per_feature)}
    ref["max_constraints_per_feature"] = {"value": max(per_feature)}
    ref["avg_constraints_per_feature"] = {"approx": statistics.mean(per_feature), "tol": 0.005}
    inctc = set()
    for e in ctcs:
        inctc |= logic.refs(e)
    L("extra_constraint_representativeness", inctc)
    return ref


def _size_of(entry):
    if entry is None:
        return None
    return entry.get("size")


def check_report(report, model, fm, flt, out, tag=""):
    """report: list of dicts from FMMetrics; flt: None or list of method names."""
    if not isinstance(report, list) or not all(isinstance(x, dict) for x in report):
        out.append(("C17.report-shape", repr(type(report))))
        return
    names = [x.get("name") for x in report]
    if len(names) != len(set(names)):
        dup = sorted({n for n in names if names.count(n) > 1})
        out.append(("C17.duplicate-metric", f"{dup[:5]} ({len(names)} entries for {len(set(names))} names){tag}"))
    expected_methods = list(METRICS) if flt is None else [m for m in METRICS if m in flt]
    expected_names = {METRICS[m][0] for m in expected_methods}
    if set(names) != expected_names:
        out.append(("C17.metric-set", f"missing {sorted(expected_names - set(names))[:5]}, unexpected {sorted(set(names) - expected_names)[:5]}{tag}"))
    by = {}
    for x in report:
        by.setdefault(x.get("name"), x)
    ref = reference(model)
    full_sizes = {}
    for m in METRICS:
        r = ref[m]
        if "list" in r:
            full_sizes[m] = len(r["list"])
        elif "count" in r:
            full_sizes[m] = r["count"]
        elif "ctc_idx" in r:
            full_sizes[m] = len(r["ctc_idx"])
        elif "ctc_pred" in r:
            full_sizes[m] = sum(1 for c in fm.ctcs if getattr(c, r["ctc_pred"])())
        elif m == "root_feature":
            full_sizes[m] = 1
    for m in expected_methods:
        disp, denom = METRICS[m]
        x = by.get(disp)
        if x is None:
            continue
        res, size, ratio = x.get("result"), x.get("size"), x.get("ratio")
        r = ref[m]
        if isinstance(res, (list, tuple, set, dict)):
            if size != len(res):
                out.append(("C17.size!=len", f"{disp}: size {size!r}, len {len(res)}"))
        if "list" in r:
            if not isinstance(res, list) or sorted(res) != r["list"]:
                out.append((f"C17.value.{m}", f"expected {r['list'][:12]}, got {res!r:.200}"))
        elif "count" in r:
            if not isinstance(res, list) or len(res) != r["count"]:
                out.append((f"C17.value.{m}", f"expected {r['count']} entries, got {res!r:.200}"))
        elif "ctc_idx" in r or "ctc_pred" in r:
            if "ctc_idx" in r:
                want = sorted(str(fm.ctcs[i]) for i in r["ctc_idx"])
            else:
                want = sorted(str(c) for c in fm.ctcs if getattr(c, r["ctc_pred"])())
            if not isinstance(res, list) or sorted(res) != want:
                out.append((f"C17.value.{m}", f"expected {want[:6]}, got {res!r:.200}"))
            if m == "strict_complex_constraints" and isinstance(res, list):
                # 'cannot be transformed to a set of simple constraints' is refuted when every textbook transformation
                # into clauses yields simple constraints only (one-way backstop shared with C18)
                for c, cs in zip(fm.ctcs, model["ctcs"]):
                    if str(c) in res and logic.is_logical(cs["ast"]) and logic.unanimously_pseudo(cs["ast"]) is True:
                        out.append(("C17.value.strict_complex_constraints.transformable", logic.canon(cs["ast"])[:200]))
        elif "value" in r:
            if res != r["value"] or isinstance(res, bool):
                out.append((f"C17.value.{m}", f"expected {r['value']!r}, got {res!r}"))
            if "size" in r and size != r["size"]:
                out.append(("C17.size!=len", f"{disp}: size {size!r}"))
        elif "approx" in r:
            if r["approx"] is None:
                ok = isinstance(res, (int, float)) and not isinstance(res, bool) and math.isfinite(res)
            else:
                ok = (isinstance(res, (int, float)) and not isinstance(res, bool)
                      and abs(res - r["approx"]) <= r["tol"] + 1e-9)
            if not ok:
                out.append((f"C17.value.{m}", f"expected about {r['approx']!r}, got {res!r}"))
        elif r.get("any_number"):
            if not (isinstance(res, (int, float)) and not isinstance(res, bool) and math.isfinite(res)):
                out.append((f"C17.value.{m}", f"expected a number, got {res!r}"))
        if denom is not None:
            prec = PRECISION.get(m, 4)
            d = full_sizes[denom]
            num = full_sizes[m]
            want = 0.0 if d == 0 else num / d
            if not isinstance(ratio, (int, float)) or isinstance(ratio, bool):
                out.append((f"C17.ratio.{m}", f"ratio {ratio!r}"))
            elif abs(ratio - want) > 0.5 * 10 ** -prec + 1e-12 or not (0 <= ratio <= 1):
                out.append((f"C17.ratio.{m}", f"{disp}: expected {num}/{d}, got {ratio!r}"))
        elif ratio is not None and not (isinstance(ratio, (int, float)) and 0 <= ratio <= 1):
            out.append((f"C17.ratio.{m}", f"{disp}: ratio {ratio!r} outside [0,1]"))
    if flt is None:
        identities(by, model, out)
        # agreement with the stand-alone operations
        from flamapy.metamodels.fm_metamodel.operations import FMAverageBranchingFactor, FMLeafFeatures, FMMaxDepthTree
        for disp, op, conv in (("Branching factor", FMAverageBranchingFactor, lambda v: v),
                               ("Max depth of tree", FMMaxDepthTree, lambda v: v),
                               ("Depth of tree", FMMaxDepthTree, lambda v: v),
                               ("Leaf features", FMLeafFeatures, lambda v: sorted(f.name for f in v))):
            got = lib(lambda op=op: op().execute(fm).get_result())
            if isinstance(got, Raised) or disp not in by:
                continue
            mine = by[disp]["result"]
            if disp == "Leaf features":
                mine = sorted(mine) if isinstance(mine, list) else mine
            if mine != conv(got):
                out.append(("C17.differs-from-operation", f"{disp}: report {mine!r:.80}, operation {conv(got)!r:.80}"))


def identities(by, model, out):
    def S_(name):
        x = by.get(name)
        return None if x is None or not isinstance(x.get("result"), list) else x["result"]

    def split(whole, a, b, label):
        if None in (whole, a, b):
            return
        if sorted(a + b) != sorted(whole):
            out.append((f"C17.identity.{label}", f"{sorted(a)[:8]} + {sorted(b)[:8]} vs {sorted(whole)[:8]}"))

    feats = S_("Features")
    split(feats, S_("Abstract features"), S_("Concrete features"), "abstract+concrete=features")
    split(feats, S_("Leaf features"), S_("Compound features"), "leaf+compound=features")
    if feats is not None:
        nonroot = [n for n in feats if n != model["root"]["name"]]
        split(nonroot, S_("Solitary features"), S_("Grouped features"), "solitary+grouped=non-root")
    sol = S_("Solitary features")
    for part in ("Mandatory features", "Optional features"):
        p = S_(part)
        if p is not None and sol is not None and not set(p) <= set(sol):
            out.append(("C17.identity.mandatory-optional-inside-solitary", f"{part}: {sorted(set(p) - set(sol))[:6]}"))
    split(S_("Simple constraints"), S_("Requires constraints"), S_("Excludes constraints"), "requires+excludes=simple")
    # simple + complex = logical constraints
    logical = [i for i, c in enumerate(model["ctcs"]) if logic.is_logical(c["ast"])]
    sim, com = S_("Simple constraints"), S_("Complex constraints")
    if sim is not None and com is not None and len(sim) + len(com) != len(logical):
        out.append(("C17.identity.simple+complex=logical", f"{len(sim)}+{len(com)} vs {len(logical)}"))
    for part in ("Pseudo-complex constraints", "Strict-complex constraints"):
        p = S_(part)
        if p is not None and com is not None:
            rest = list(com)
            for s in p:
                if s in rest:
                    rest.remove(s)
                else:
                    out.append(("C17.identity.pseudo-strict-inside-complex", part))
                    break


def _norm(report):
    out = []
    for x in report:
        y = dict(x)
        if isinstance(y.get("result"), list):
            y["result"] = sorted(map(str, y["result"]))
        out.append(y)
    return sorted(out, key=lambda d: str(d.get("name")))


def check(case):
    from flamapy.metamodels.fm_metamodel.operations import FMMetrics
    out = []
    fms = [build.build(m) for m in case["models"]]
    current = list(case["models"])
    shared = FMMetrics()
    for k, step in enumerate(case["steps"]):
        i = step["model"] % len(fms)
        if step.get("edit") is not None:
            # the model object is edited in place between two analyses; the report describes the model as it is now
            _bool.morph_checked(fms[i], step["edit"])
            current[i] = step["edit"]
        fm, model, flt = fms[i], current[i], step.get("filter")

        def run(obj, fm=fm, flt=flt):
            if flt is not None:
                obj.only_these_metrics(list(flt))
            else:
                obj.filter = None
            return obj.execute(fm).get_result()

        fresh = lib(run, FMMetrics())
        if isinstance(fresh, Raised):
            out.append((f"C17.raised:{fresh.label}", f"step {k}: {fresh.text}"))
            continue
        fresh = list(fresh)
        if step.get("edit") is not None:
            rebuilt = lib(run, FMMetrics(), build.build(model))
            if not isinstance(rebuilt, Raised) and _norm(list(rebuilt)) != _norm(fresh):
                out.append(("C17.after-in-place-edit.differs-from-fresh-build", f"step {k} ({step.get('edit_label')})"))
        if step["shared"]:
            got = lib(run, shared)
            if isinstance(got, Raised):
                out.append((f"C17.raised:{got.label}", f"step {k} (shared object): {got.text}"))
                continue
            got = list(got)
            if _norm(got) != _norm(fresh):
                out.append(("C17.history-dependent", f"step {k}: shared object reports {len(got)} entries, fresh object {len(fresh)}"))
            check_report(got, model, fm, flt, out, tag=f" (step {k}, shared)")
        else:
            check_report(fresh, model, fm, flt, out)
    return list(dict.fromkeys(out))


def _ctc(draw, names, feats):
    k = draw(st.integers(0, 9))
    a, b = draw(st.sampled_from(names)), draw(st.sampled_from(names))
    A, B = ["T", a], ["T", b]
    forms = [["REQUIRES", A, B], ["IMPLIES", A, B], ["OR", ["NOT", A], B], ["OR", B, ["NOT", A]],
             ["EXCLUDES", A, B], ["IMPLIES", A, ["NOT", B]], ["OR", ["NOT", A], ["NOT", B]],
             ["NOT", ["AND", A, B]], ["AND", ["IMPLIES", A, B], ["EXCLUDES", B, A]], A, ["NOT", A], ["XOR", A, B],
             ["EQUIVALENCE", A, B]]
    if k <= 5:
        return draw(st.sampled_from(forms))
    from vf.props.c18 import _cap_xor
    return _cap_xor(draw(S.expr_of_depth(names, logic.LOGICAL, draw(st.integers(1, 3)))), [2])


METRIC_PROFILE = S.Profile(S.ident_or_dict_names(), single=("mandatory", "optional"),
                           group=("alternative", "or", "mutex", "card"), layout="free", ctc_max=5, ctc_expr=_ctc, wide=True, simple_ops=logic.LOGICAL)


@st.composite
def histories(draw):
    nm = draw(st.integers(1, 3))
    models = [draw(S.model_specs(METRIC_PROFILE, 1, 10)) for _ in range(nm)]
    if nm >= 2 and draw(st.integers(0, 2)) == 0:
        models[-1] = S.eq_twin(draw, models[0])       # == to models[0] for the library, yet a different model
    steps = []
    current = list(models)
    for _ in range(draw(st.integers(1, 5))):
        flt = None
        if draw(st.integers(0, 2)) == 0:
            flt = draw(st.lists(st.sampled_from(sorted(METRICS)), max_size=8, unique=True))
        step = {"model": draw(st.integers(0, nm - 1)), "filter": flt, "shared": draw(st.booleans())}
        if steps and draw(st.integers(0, 3)) == 0:
            from vf.props import c20
            label, edited = c20.apply_edit(draw, current[step["model"]],
                                           only=c20.STRUCTURAL + ("operator-same-kind", "operand-existing", "ctc-copy"))
            present = set(build.names(edited))
            edited["ctcs"] = [c for c in edited["ctcs"] if build.expr_refs(c["ast"]) <= present]
            current[step["model"]] = edited
            step["edit"], step["edit_label"] = edited, label
        steps.append(step)
    return {"models": models, "steps": steps}


def enum_ratio_boundaries(tier, seed):
    """Flat models with n features of which k are abstract and k occur in constraints, for every (k, n) whose
    quotient lies within 0.02 units of a rounding tie at the documented precision (2 decimals for 'features in
    constraints', 4 for the other ratios) - the only place where an intermediate rounding can show."""
    limit = 320 if tier == "thorough" else 160
    pairs = []
    for n in range(2, limit):
        for k in range(1, n):
            for prec in (2, 4):
                x = k / n * 10 ** prec
                frac = x - int(x)
                if abs(frac - 0.5) <= 0.02 and frac != 0.5:
                    pairs.append((k, n, prec))
    if tier != "thorough":
        pairs = pairs[int(seed) % 4::4]
    out = []
    for k, n, prec in pairs:
        kids = [build.feat(f"F{i}", abstract=(i < k)) for i in range(1, n)]
        root = build.feat("F0", [build.rel(0, 1, [c]) for c in kids], abstract=(k == n))
        ctcs = [{"name": f"C{i}", "ast": ["T", f"F{i}"]} for i in range(1, k + 1)]
        # k features in constraints (F1..Fk); k abstract features (F1..Fk) of n
        out.append({"models": [{"root": root, "ctcs": ctcs}], "steps": [{"model": 0, "filter": None, "shared": False}]})
    return out


def enum_big_constraints(tier, seed):
    """Flat models carrying one constraint (A1|..|An) => (B1&..&Bm) or (A1|..|An) => !(B1|..|Bm) whose n*m clauses
    straddle the thresholds an implementation may have (C18's bipartite family): complex, pseudo-complex, not
    strict-complex, at any size."""
    from vf.props import c18
    out = []
    for c in c18.enum_bipartite(tier, seed):
        n, m = c["shape"]
        if n * m < 60 or (tier != "thorough" and n * m > 1100 and (n + m) % 3):
            continue
        names = [f"A{i}" for i in range(n)] + [f"B{i}" for i in range(m)]
        root = build.feat("Root", [build.rel(0, 1, [build.feat(x)]) for x in names])
        out.append({"models": [{"root": root, "ctcs": [{"name": "Big", "ast": c["ast"]}]}],
                    "steps": [{"model": 0, "filter": None, "shared": False}]})
    return out


def nontrivial(case):
    if sum(1 for s in case["steps"] if s["shared"]) >= 2:
        return True
    for m in case["models"]:
        if not m["ctcs"] or len(build.names(m)) == 1:
            return True
        for f, _ in build.iter_feats(m["root"]):
            sizes = {len(r["children"]) >= 2 for r in f["rels"]}
            if sizes == {True, False}:
                return True
    return False


def classes(case):
    out = set()
    for m in case["models"]:
        out |= _bool.structure_classes(m)
        for f, _ in build.iter_feats(m["root"]):
            if {len(r["children"]) >= 2 for r in f["rels"]} == {True, False}:
                out.add("mixed-decomposition")
        if not m["ctcs"]:
            out.add("no-ctcs")
    if sum(1 for s in case["steps"] if s["shared"]) >= 2:
        out.add("shared-object-reused")
    if any(s["filter"] is not None for s in case["steps"]):
        out.add("filtered")
    if any(s["filter"] == [] for s in case["steps"]):
        out.add("empty-filter")
    if any(s.get("edit") is not None for s in case["steps"]):
        out.add("in-place-edit")
    return out


SUBS = [
    Sub("ratio-boundaries", check, enum=enum_ratio_boundaries, nontrivial=lambda case: True,
        classes=lambda case: {"ratio-boundary"}),
    Sub("big-constraints", check, enum=enum_big_constraints, nontrivial=lambda case: True,
        classes=lambda case: {"big-constraint"}),
    Sub("histories", check, gen=lambda tier: histories(), nontrivial=nontrivial, classes=classes,
        n={"quick": 800, "thorough": 6000},
        essential=["mixed-decomposition", "no-ctcs", "root-only", "shared-object-reused", "filtered", "in-place-edit"]),
]

MANIFEST = {
    "technique": "model-based property testing: Hypothesis draws histories (models x filters x shared/fresh metrics object); oracle = forty independent reference metric functions, the statement's identities, the stand-alone operations, and fresh-object agreement after every step",
    "level_text": "Generated histories of up to 5 analyses over up to 3 models; every report entry is compared with an independently computed definition, sizes and ratios with the denominator table, identities as set equations, and reused objects with fresh ones. Sampling only. Also: in-place edits between analyses (compared with a fresh build), C18's bipartite big constraints in flat models, the one-way backstop for strict-complex, ratio-boundary enumeration. A sample of every sub-check additionally runs in a `python -OO` child with the root logger at DEBUG.",
    "level_note": "Trusted: reference() and the METRICS table in vf/props/c17.py (display names and denominators transcribed from the metric definitions), vf/logic.py.",
}
