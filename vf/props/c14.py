"""C14 - core features are exactly the always-selected features of the tree."""
from vf import build, semantics
from vf.oracle import Raised, lib
from vf.props import _bool
from vf.runner import Sub

ID = "C14"
RULE = ("Same domain as C13 (exhaustive shapes <=5/<=7 features, random boolean_any models up to 12 features with and "
        "without logical constraints). Non-trivial: the always-selected set differs from {root}, or a non-mandatory-class "
        "relation forces a child ([n..n] over n children); distinct = distinct canonical JSON.")
ASSUMPTIONS = ["always-selected set = intersection of all configurations from vf/semantics.py; a void model makes the "
               "membership claim vacuous (counted in classes as 'void')"]


def check(case):
    from flamapy.metamodels.fm_metamodel.operations import FMCoreFeatures
    out = []
    fm = build.build(case)
    got = lib(lambda: FMCoreFeatures().execute(fm).get_result())
    if isinstance(got, Raised):
        return [(f"C14.raised:{got.label}", got.text)]
    again = lib(lambda: (_bool.long_lived(FMCoreFeatures).execute(fm), _bool.long_lived(FMCoreFeatures).execute(fm).get_result())[1])
    if isinstance(again, Raised) or [f.name for f in again] != [f.name for f in got]:
        out.append(("C14.reused-object-differs", "a long-lived FMCoreFeatures object returns something else than a fresh one"))
    names = [getattr(f, "name", repr(f)) for f in got]
    if len(names) != len(set(names)):
        out.append(("C14.duplicates", repr(names)))
    if case["root"]["name"] not in names:
        out.append(("C14.root-missing", repr(names)))
    cfgs = semantics.configs(case)
    if cfgs:
        always = frozenset.intersection(*cfgs)
        extra = [n for n in names if n not in always]
        if extra:
            out.append(("C14.not-always-selected", f"{extra} of {names}"))
        if not case["ctcs"] and set(names) != set(always):
            out.append(("C14.incomplete", f"expected {sorted(always)}, got {sorted(names)}"))
    return out


def _forced_by_group(case):
    for r, _ in build.iter_rels(case["root"]):
        if len(r["children"]) >= 2 and r["min"] == len(r["children"]):
            return True
    return False


def nontrivial(case):
    if _forced_by_group(case):
        return True
    for r, o in build.iter_rels(case["root"]):
        if o is case["root"] and r["min"] == len(r["children"]):
            return True
    return False


def classes(case):
    out = _bool.structure_classes(case)
    if _forced_by_group(case):
        out.add("forced-by-group")
    if case["ctcs"] and not semantics.configs(case):
        out.add("void")
    return out


SUBS = [
    Sub("shapes", check, enum=_bool.enum_shapes, nontrivial=nontrivial, classes=classes, exhaustive=True),
    Sub("random-no-ctcs", check, gen=lambda tier: _bool.random_models(False), nontrivial=nontrivial,
        classes=classes, n={"quick": 800, "thorough": 6000}, essential=["forced-by-group"]),
    Sub("random-ctcs", check, gen=lambda tier: _bool.random_models(True, 10), nontrivial=nontrivial,
        classes=classes, n={"quick": 200, "thorough": 2500}, essential=["with-ctcs"]),
]

MANIFEST = {
    "technique": "exhaustive enumeration of small tree shapes + Hypothesis random models; oracle = intersection of all configurations from an independent brute-force enumerator",
    "level_text": "Exact for every tree shape up to 5 (quick) / 7 (thorough) features, random sampling to 12 features, with and without constraints.",
    "level_note": "Trusted: vf/semantics.py, vf/shapes.py.",
}
