"""C14 - core features are exactly the always-selected features of the tree."""
from vf import build, semantics, strategies as S
from vf.oracle import Raised, lib
from vf.props import _bool
from vf.runner import Sub

ID = "C14"
RULE = ("Same domain as C13 (exhaustive shapes <=5/<=7 features, random boolean_any models up to 12 features with and "
        "without logical constraints). Non-trivial: the always-selected set differs from {root}, or a non-mandatory-class "
        "relation forces a child ([n..n] over n children); distinct = distinct canonical JSON.")
ASSUMPTIONS = ["always-selected set = intersection of all configurations from vf/semantics.py; a void model makes the "
               "membership claim vacuous (counted in classes as 'void')"]


def check(case):
    return _bool.run_with_edits(case, check_fm, "C14")


def check_large(case):
    """Models beyond brute force (groups of up to 300 leaves): the exact always-selected set of a constraint-free tree
    is the closure of the root under 'the relation demands all of its members' (_bool.forced_links; cross-checked
    against brute force on every small case in check_fm)."""
    from flamapy.metamodels.fm_metamodel.operations import FMCoreFeatures
    out = []
    fm = build.build(case)
    got = lib(lambda: FMCoreFeatures().execute(fm).get_result())
    if isinstance(got, Raised):
        return [(f"C14.raised:{got.label}", got.text)]
    names = [getattr(f, "name", repr(f)) for f in got]
    always, _ = _bool.forced_links(case)
    if len(names) != len(set(names)):
        out.append(("C14.duplicates", repr(names)[:200]))
    if case["root"]["name"] not in names:
        out.append(("C14.root-missing", repr(names)[:200]))
    extra = sorted(set(names) - always)
    if extra:
        out.append(("C14.not-always-selected", f"{extra[:8]}"))
    if set(names) != always:          # the only constraint drawn here is a tautology
        out.append(("C14.incomplete", f"{len(always)} features are always selected, {len(set(names))} returned; missing {sorted(always - set(names))[:8]}"))
    return out


def check_fm(fm, case, out):
    from flamapy.metamodels.fm_metamodel.operations import FMCoreFeatures
    got = lib(lambda: FMCoreFeatures().execute(fm).get_result())
    if isinstance(got, Raised):
        out.append((f"C14.raised:{got.label}", got.text))
        return out
    again = lib(lambda: (_bool.long_lived(FMCoreFeatures).execute(fm), _bool.long_lived(FMCoreFeatures).execute(fm).get_result())[1])
    if isinstance(again, Raised) or [f.name for f in again] != [f.name for f in got]:
        out.append(("C14.reused-object-differs", "a long-lived FMCoreFeatures object returns something else than a fresh one"))
    names = [getattr(f, "name", repr(f)) for f in got]
    if len(names) != len(set(names)):
        out.append(("C14.duplicates", repr(names)))
    if case["root"]["name"] not in names:
        out.append(("C14.root-missing", repr(names)))
    cfgs = semantics.configs(case)
    if cfgs:
        always = frozenset.intersection(*cfgs)
        extra = [n for n in names if n not in always]
        if extra:
            out.append(("C14.not-always-selected", f"{extra} of {names}"))
        if not case["ctcs"] and set(names) != set(always):
            out.append(("C14.incomplete", f"expected {sorted(always)}, got {sorted(names)}"))
        if not case["ctcs"] and all(r["max"] == -1 or r["max"] >= 1 for r, _ in build.iter_rels(case["root"])) \
                and all(r["min"] <= len(r["children"]) for r, _ in build.iter_rels(case["root"])):
            if _bool.forced_links(case)[0] != set(always):
                raise AssertionError("harness: forced_links disagrees with the brute-force enumerator")
    return out


def _forced_by_group(case):
    for r, _ in build.iter_rels(case["root"]):
        if len(r["children"]) >= 2 and r["min"] == len(r["children"]):
            return True
    return False


def nontrivial(case):
    case = case["model"] if "edits" in case else case
    if _forced_by_group(case):
        return True
    for r, o in build.iter_rels(case["root"]):
        if o is case["root"] and r["min"] == len(r["children"]):
            return True
    return False


def classes(case):
    if "edits" in case:
        return _bool.edit_classes(case)
    out = _bool.structure_classes(case)
    if _forced_by_group(case):
        out.add("forced-by-group")
    if case["ctcs"] and not semantics.configs(case):
        out.add("void")
    return out


SUBS = [
    Sub("large-models", check_large, gen=lambda tier: _bool.large_models(), nontrivial=lambda case: True,
        classes=_bool.large_classes, n={"quick": 40, "thorough": 1000}, essential=["group>=257", "forced-by-group"]),
    Sub("twin-subtrees", check, gen=lambda tier: _bool.twin_subtree_models(), nontrivial=lambda case: True,
        classes=lambda case: {"twin-subtrees"}, n={"quick": 150, "thorough": 2000}),
    Sub("constraint-lists", check, gen=lambda tier: _bool.constraint_list_models(), nontrivial=nontrivial, classes=classes,
        n={"quick": 200, "thorough": 2500}, essential=["with-ctcs"], min_nontrivial=0.0),
    Sub("edit-histories", check, gen=lambda tier: _bool.edit_histories(S.BOOLEAN_ANY, 10, with_ctcs=True),
        nontrivial=lambda case: True, classes=classes, n={"quick": 100, "thorough": 1500}, essential=["edit:move"]),
    Sub("shapes", check, enum=_bool.enum_shapes, nontrivial=nontrivial, classes=classes, exhaustive=True),
    Sub("random-no-ctcs", check, gen=lambda tier: _bool.random_models(False), nontrivial=nontrivial,
        classes=classes, n={"quick": 800, "thorough": 6000}, essential=["forced-by-group"]),
    Sub("random-ctcs", check, gen=lambda tier: _bool.random_models(True, 10), nontrivial=nontrivial,
        classes=classes, n={"quick": 200, "thorough": 2500}, essential=["with-ctcs"]),
]

MANIFEST = {
    "technique": "exhaustive enumeration of small tree shapes + Hypothesis random models; oracle = intersection of all configurations from an independent brute-force enumerator",
    "level_text": "Exact for every tree shape up to 5 (quick) / 7 (thorough) features, random sampling to 12 features, with and without constraints. Also: models with groups of up to 300 leaves against the exact always-selected set of a constraint-free tree (cross-checked against brute force on every small case), constraint-list models, in-place edit histories. A sample of every sub-check additionally runs in a `python -OO` child with the root logger at DEBUG.",
    "level_note": "Trusted: vf/semantics.py, vf/shapes.py.",
}
