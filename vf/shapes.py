"""Canonical enumeration of all feature-tree shapes with cardinalities.

A tree is the sorted tuple of its relations; a relation is (min, max, sorted tuple of child trees)
with 0 <= min <= max <= k.  Counts for 1..8 features: 1, 3, 21, 146, 1143, 9396, 81192, 723705.
"""
import functools

from vf.build import feat, rel


def _multisets(total, pool, lo=(1, 0)):
    if total == 0:
        yield ()
        return
    for size in range(lo[0], total + 1):
        items = pool(size)
        start = lo[1] if size == lo[0] else 0
        for idx in range(start, len(items)):
            for rest in _multisets(total - size, pool, (size, idx)):
                yield (items[idx],) + rest


@functools.lru_cache(maxsize=None)
def relations(size):
    """All relations whose children sub-trees have `size` nodes in total."""
    out = []
    for forest in _multisets(size, trees):
        k = len(forest)
        for lo in range(0, k + 1):
            for hi in range(lo, k + 1):
                out.append((lo, hi, forest))
    return out


@functools.lru_cache(maxsize=None)
def trees(n):
    """All trees with n nodes."""
    return [ms for ms in _multisets(n - 1, relations)]


def to_spec(tree, counter=None, prefix="F"):
    counter = counter if counter is not None else [0]
    name = f"{prefix}{counter[0]}"
    counter[0] += 1
    rels = []
    for lo, hi, forest in tree:
        rels.append(rel(lo, hi, [to_spec(t, counter, prefix) for t in forest]))
    return feat(name, rels)


def all_specs(max_n):
    out = []
    for n in range(1, max_n + 1):
        for t in trees(n):
            out.append({"root": to_spec(t), "ctcs": []})
    return out


def slice_specs(n, count, seed):
    ts = trees(n)
    stride = max(1, len(ts) // count)
    off = seed % stride
    return [{"root": to_spec(t), "ctcs": []} for t in ts[off::stride]][:count]
