"""vf - property-based verification machinery for flamapy/fm_metamodel (see /verif/DESIGN.md)."""
