"""Independent reference emitter for UVL, written from the language definition (shares no code with
/repo).  Every surface decision is drawn from Hypothesis (`draw`), so documents shrink and replay.

emit(draw, model) -> (text, labels): `model` is a ModelSpec whose relations follow the UVL group rules
(each mandatory/optional child its own relation); `labels` names the surface choices that differ from
the library writer's canonical form.
"""
import re

from hypothesis import strategies as st

from vf import build, logic

PLAIN = re.compile(r"^[A-Za-z][A-Za-z0-9_]*$")
RESERVED = {"include", "namespace", "imports", "as", "features", "cardinality", "constraint", "constraints",
            "sum", "avg", "len", "floor", "ceil", "String", "Integer", "Real", "Boolean", "Arithmetic", "Type",
            "or", "alternative", "optional", "mandatory", "true", "false"}
PREC = {"EQUIVALENCE": 1, "IMPLIES": 2, "OR": 3, "AND": 4, "NOT": 5}
SYM = {"EQUIVALENCE": "<=>", "IMPLIES": "=>", "OR": "|", "AND": "&", "NOT": "!",
       "EQUALS": "==", "NOT_EQUALS": "!=", "LOWER": "<", "LOWER_EQUALS": "<=", "GREATER": ">", "GREATER_EQUALS": ">=",
       "ADD": "+", "SUB": "-", "MUL": "*", "DIV": "/"}
FUNC = {"SUM": "sum", "AVG": "avg", "LEN": "len", "FLOOR": "floor", "CEIL": "ceil"}
TYPES = {"BOOLEAN": "Boolean", "INTEGER": "Integer", "REAL": "Real", "STRING": "String"}


class Emitter:
    def __init__(self, draw):
        self.draw = draw
        self.labels = set()

    def flip(self, p_num=1, p_den=2):
        return self.draw(st.integers(0, p_den - 1)) < p_num

    def pick(self, xs):
        return self.draw(st.sampled_from(xs))

    # ---------------------------------------------------------------- identifiers
    def ident(self, name):
        needs = not PLAIN.match(name) or name in RESERVED
        if needs:
            return f'"{name}"'
        if self.flip(1, 4):
            self.labels.add("quoted-plain-identifier")
            return f'"{name}"'
        return name

    def ref(self, dotted):
        return ".".join(self.ident(p) for p in dotted.split("."))

    # ---------------------------------------------------------------- values
    def value(self, v):
        if isinstance(v, dict) and set(v) == {"$float"}:
            v = float(v["$float"])
        if isinstance(v, bool):
            return "true" if v else "false"
        if isinstance(v, int):
            return str(v)
        if isinstance(v, float):
            s = repr(v)
            if s.startswith("0.") and self.flip(1, 4):
                self.labels.add("float-without-leading-zero")
                s = s[1:]
            return s
        if isinstance(v, str):
            return f"'{v}'"
        if isinstance(v, list):
            inner = (", " if self.flip() else ",").join(self.value(x) for x in v)
            if len(v) == 1 and isinstance(v[0], int) and not isinstance(v[0], bool):
                return f"[ {inner} ]"        # '[1]' is the CARDINALITY token
            return f"[{inner}]"
        if isinstance(v, dict):
            parts = [self.ident(k) if x is None else f"{self.ident(k)} {self.value(x)}" for k, x in v.items()]
            return "{" + ", ".join(parts) + "}"
        raise ValueError(v)

    def attributes(self, f):
        parts = []
        for a in f["attrs"]:
            key = self.ident(a["name"])
            parts.append(key if a["value"] is None else f"{key} {self.value(a['value'])}")
        if f["abstract"]:
            if self.flip(1, 3):
                self.labels.add("abstract-true")
                parts.append("abstract true")
            else:
                parts.append("abstract")
        if len(parts) > 1 and self.flip():
            parts = self.draw(st.permutations(parts))
            self.labels.add("attribute-order")
        if not parts:
            if self.flip(1, 8):
                self.labels.add("empty-attribute-block")
                return " {}"
            return ""
        sep = ", " if self.flip(3, 4) else ","
        return " {" + sep.join(parts) + "}"

    def card(self, lo, hi, allow_short=True):
        if hi == -1:
            return f"[{lo}..*]"
        if lo == hi and allow_short and self.flip():
            return f"[{lo}]"
        return f"[{lo}..{hi}]"

    # ---------------------------------------------------------------- features
    def feature_line(self, f):
        s = ""
        if f["ftype"] != "BOOLEAN":
            s += TYPES[f["ftype"]] + " "
        elif self.flip(1, 5):
            self.labels.add("explicit-Boolean")
            s += "Boolean "
        s += self.ident(f["name"])
        if f["fcard"] is not None:
            lo, hi = f["fcard"]
            s += " cardinality " + self.card(lo, hi)
            self.labels.add("feature-cardinality")
        s += self.attributes(f)
        return s

    def comment(self):
        if self.flip(1, 6):
            self.labels.add("line-comment")
            return " // " + self.pick(["note", "mandatory or optional?", "a => b", "{x}", "TODO: 'quote'"])
        return ""

    def group_keyword(self, r):
        n = len(r["children"])
        lo, hi = r["min"], r["max"]
        opts = []
        if n == 1 and (lo, hi) == (1, 1):
            opts = ["mandatory", "mandatory", "card"]
        elif n == 1 and (lo, hi) == (0, 1):
            opts = ["optional", "optional", "card"]
        elif n >= 2 and (lo, hi) == (1, 1):
            opts = ["alternative", "alternative", "card"]
        elif n >= 2 and (lo, hi) == (1, n):
            opts = ["or", "or", "card"]
        else:
            opts = ["card"]
        k = self.pick(opts)
        if k == "card":
            if len(opts) > 1:
                self.labels.add("named-group-as-cardinality")
            return self.card(lo, hi)
        return k

    def feature_block(self, f, depth, lines):
        lines.append((depth, self.feature_line(f) + self.comment()))
        rels = list(f["rels"])
        i = 0
        while i < len(rels):
            r = rels[i]
            kw = self.group_keyword(r)
            block = [r]
            # several children under one mandatory/optional keyword
            if kw in ("mandatory", "optional"):
                while (i + len(block) < len(rels) and self.flip()
                       and len(rels[i + len(block)]["children"]) == 1
                       and (rels[i + len(block)]["min"], rels[i + len(block)]["max"]) == (r["min"], r["max"])):
                    block.append(rels[i + len(block)])
                if len(block) > 1:
                    self.labels.add("several-children-under-one-keyword")
            lines.append((depth + 1, kw + self.comment()))
            for rr in block:
                for c in rr["children"]:
                    self.feature_block(c, depth + 2, lines)
            i += len(block)

    # ---------------------------------------------------------------- constraints
    def paren(self, s, why="redundant-parentheses"):
        self.labels.add(why)
        return "( " + s + " )" if self.flip(1, 4) else "(" + s + ")"

    def arith(self, e, top=False):
        tag = e[0]
        if tag == "T":
            s = self.ref(e[1])
        elif tag == "I":
            s = str(e[1])
        elif tag == "F":
            s = e[1]
            if s.startswith("0.") and self.flip(1, 3):
                self.labels.add("float-without-leading-zero")
                s = s[1:]                 # '.5' is a FLOAT token too
        elif tag == "S":
            s = e[1]
        elif tag in FUNC:
            args = ", ".join(self.ref(x[1]) for x in e[1:])
            s = f"{FUNC[tag]}({args})"
            self.labels.add("aggregate:" + FUNC[tag] + str(len(e) - 1))
        else:
            sp = " " if tag == "SUB" else self.pick([" ", " ", ""])   # 'a -3' would lex as a negative literal
            s = self.arith(e[1]) + sp + SYM[tag] + sp + self.arith(e[2])
            if not top:
                return "(" + s + ")"      # mixed arithmetic is always parenthesised
            return s
        if self.flip(1, 10):
            return self.paren(s)
        return s

    def constraint(self, e, parent=None, top=True):
        tag = e[0]
        if tag == "T":
            s = self.ident(e[1])
            return self.paren(s) if self.flip(1, 10) else s
        if tag in logic.COMPARISON:
            sp = self.pick([" ", " ", ""])
            s = self.arith(e[1], top=True) + sp + SYM[tag] + sp + self.arith(e[2], top=True)
            if not top:
                return "(" + s + ")"
            return self.paren(s) if self.flip(1, 8) else s
        if tag == "NOT":
            inner = self.constraint(e[1], parent="NOT", top=False)
            s = "!" + ("" if self.flip() else " ") + inner
        else:
            sp = " " if self.flip(5, 6) else ""
            s = self.constraint(e[1], parent=tag, top=False) + sp + SYM[tag] + sp + self.constraint(e[2], parent=tag, top=False)
        if parent is None:
            return self.paren(s) if self.flip(1, 8) else s
        need = PREC[tag] <= PREC[parent] and not (tag == parent and tag in ("AND", "OR")) and not (tag == "NOT" and parent == "NOT")
        if tag in ("IMPLIES", "EQUIVALENCE"):
            need = True
        if need:
            return "(" + s + ")"
        self.labels.add("parentheses-omitted-by-precedence")
        return self.paren(s) if self.flip(1, 6) else s

    # ---------------------------------------------------------------- document
    def document(self, model):
        out = []
        headers = self.flip()
        # a comment line before namespace/include/imports is rejected by the pinned uvlparser (a NEWLINE
        # token is not allowed there) - dependency quirk, so comments lead only header-less documents
        if not headers and self.flip(2, 5):
            self.labels.add("leading-comment")
            out.append("// generated by the reference emitter")
        if not headers and self.flip(1, 4):
            self.labels.add("block-comment")
            out.append("/* block\n   comment */")
        if headers and self.flip(1, 2):
            self.labels.add("namespace")
            if self.flip(1, 3):
                # the namespace may be spelled like a feature of the model (names live in different scopes)
                from vf import build as _b
                self.labels.add("namespace-named-like-a-feature")
                out.append("namespace " + self.ident(self.pick(_b.names(model))))
            else:
                out.append("namespace " + self.pick(["ns", "my.model", "Shop_1"]))
        unit = self.pick(["\t", "\t", "  ", "    "])
        if unit != "\t":
            self.labels.add("space-indentation")
        if headers and self.flip(1, 2):
            self.labels.add("include")
            out.append("include")
            levels = self.draw(st.lists(st.sampled_from(
                ["Boolean", "Arithmetic", "Type", "Boolean.group-cardinality", "Arithmetic.feature-cardinality",
                 "Arithmetic.aggregate-function", "Type.string-constraints", "Arithmetic.*", "Boolean.*", "Type.*"]),
                min_size=1, max_size=4, unique=True))
            out.extend(unit + lv for lv in levels)
        if headers and self.flip(2, 5):
            self.labels.add("imports")
            out.append("imports")
            for imp in self.draw(st.lists(st.sampled_from(["lib", "a.b as c", "x.y.z", "other as o"]), min_size=1,
                                          max_size=3, unique=True)):
                out.append(unit + imp)
        out.append("features" + self.comment())
        lines = []
        self.feature_block(model["root"], 1, lines)
        out.extend(unit * d + s for d, s in lines)
        if model["ctcs"]:
            if self.flip(1, 3):
                self.labels.add("blank-line-before-constraints")
                out.append("")
            out.append("constraints" + self.comment())
            for c in model["ctcs"]:
                out.append(unit + self.constraint(c["ast"]) + self.comment())
        nl = "\n"
        if self.flip(1, 5):
            self.labels.add("crlf")
            nl = "\r\n"
        text = nl.join(x.replace("\n", nl) for x in out)
        if self.flip(3, 4):
            text += nl
        else:
            self.labels.add("no-final-newline")
        return text


def emit(draw, model):
    em = Emitter(draw)
    text = em.document(model)
    return text, sorted(em.labels)
