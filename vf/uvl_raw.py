"""Strict validity filter for UVL text on top of the raw uvlparser (dependency): error listeners on
both the lexer and the parser."""
from antlr4 import CommonTokenStream, InputStream
from antlr4.error.ErrorListener import ErrorListener
from uvl.UVLCustomLexer import UVLCustomLexer
from uvl.UVLPythonParser import UVLPythonParser


class _L(ErrorListener):
    def __init__(self, tag):
        super().__init__()
        self.tag = tag
        self.errors = []

    def syntaxError(self, recognizer, offendingSymbol, line, column, msg, e):  # noqa: N802,N803
        self.errors.append(f"{self.tag} {line}:{column} {msg}")


def strict_errors(text: str):
    """(lexer_errors, parser_errors) for a UVL document."""
    ll, pl = _L("lexer"), _L("parser")
    lexer = UVLCustomLexer(InputStream(text))
    lexer.removeErrorListeners()
    lexer.addErrorListener(ll)
    parser = UVLPythonParser(CommonTokenStream(lexer))
    parser.removeErrorListeners()
    parser.addErrorListener(pl)
    tree = parser.featureModel()
    strict_errors.no_features = tree.features() is None
    return ll.errors, pl.errors
