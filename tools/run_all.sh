#!/bin/sh
# usage: tools/run_all.sh <tier> [seed]  - run every registered check, print a summary table
tier="${1:-quick}"; seed="${2:-1}"
cd "$(dirname "$0")/.." || exit 2
for p in C01 C02 C03 C04 C05 C06 C07 C08 C09 C10 C11 C12 C13 C14 C15 C16 C17 C18 C19 C20; do
  start=$(date +%s)
  out=$(VERIF_SEED=$seed ./check $p $tier 2>/dev/null); rc=$?
  end=$(date +%s)
  echo "$p rc=$rc $((end-start))s $(echo "$out" | grep -c '^VIOLATION') violations $(echo "$out" | grep -c '^KNOWN-FINDING') known"
  echo "$out" | grep '^VIOLATION' | head -3
done
