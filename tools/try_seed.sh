#!/bin/sh
# usage: tools/try_seed.sh <PROPERTY-ID> <dir-with-patch.diff-and-demo.py> [tier] [seed]
# Confirms the seeded change (tools/confirm_seed.sh) and runs the property's check against a scratch copy with it.
pid="$1"; dir="$(realpath "$2")"; tier="${3:-quick}"; seed="${4:-1}"
cd "$(dirname "$0")/.." || exit 2
tools/confirm_seed.sh "$pid" "$dir"
out=$(VERIF_SEED=$seed tools/with_patch.sh "$dir/patch.diff" ./check "$pid" "$tier" 2>&1); rc=$?
echo "$pid $tier seed=$seed against patch: rc=$rc"
echo "$out" | grep -E '^(VIOLATION|KNOWN-FINDING|discrepancy|generator health|harness)' | head -8
