#!/bin/sh
# usage: tools/with_patch.sh <patch.diff> <command...>
# Copies /repo's python package to a scratch dir, applies the patch there, runs the command with
# VF_REPO pointing at the copy, removes the copy.  /repo itself is never touched.
set -e
patch_file="$(realpath "$1")"; shift
scratch="$(mktemp -d "${TMPDIR:-/tmp}/vfmut-XXXXXX")"
trap 'rm -rf "$scratch"' EXIT
mkdir -p "$scratch/flamapy"
cp -r /repo/flamapy/metamodels "$scratch/flamapy/metamodels"
find "$scratch" -name __pycache__ -type d -prune -exec rm -rf {} +
(cd "$scratch" && patch -p1 -s < "$patch_file")
set +e
VF_REPO="$scratch" "$@"
rc=$?
exit $rc
