#!/venv/bin/python
"""Regenerate MANIFEST.json from vf/props/*.py (each module carries its MANIFEST texts)."""
import importlib, json, os, sys
HERE = os.path.dirname(os.path.dirname(os.path.abspath(__file__)))
sys.path.insert(0, HERE)
ALL = [f"C{n:02d}" for n in range(1, 21)]
checks, na = [], []
for pid in ALL:
    path = os.path.join(HERE, "vf", "props", pid.lower() + ".py")
    if not os.path.exists(path):
        na.append({"property_id": pid, "reason": "check not built yet (work in progress; the design in DESIGN.md section 5 applies)"})
        continue
    mod = importlib.import_module(f"vf.props.{pid.lower()}")
    man = mod.MANIFEST
    checks.append({
        "property_id": pid,
        "quick_cmd": f"./check {pid} quick",
        "thorough_cmd": f"./check {pid} thorough",
        "evidence_file": f"evidence/{pid}.json",
        "replay_cmd_template": f"./check {pid} --replay {{path}}",
        "engine": "vf",
        "level_claimed": {"category": "exploration", "text": man["level_text"], "design_ref": f"DESIGN.md section 5 {pid}"},
        "level_note": man["level_note"],
        "technique": man["technique"],
    })
manifest = {
    "version": 1,
    "setup_cmd": "./setup.sh",
    "hooks": {
        "guard": "FLAMAPY_FM_METAMODEL_VERIF",
        "enable": "no hooks are needed: every property is observable through public constructors, attributes and return values; checks import /repo's working tree through the editable install",
        "baseline_off_cmd": "cd /repo && env -u FLAMAPY_FM_METAMODEL_VERIF /venv/bin/python -m pytest -ra -q -p no:cacheprovider --timeout=900 --continue-on-collection-errors",
        "source_commits": [],
        "add_only": True,
    },
    "engines": [{"name": "vf", "path": "vf/", "serves_properties": [c["property_id"] for c in checks],
                 "kind_free_text": "Hypothesis 6.168 structured generators + exhaustive enumeration of small finite domains, sharded over 16 processes, against independent oracles (reference models, round trips, brute-force semantics, reference emitters/interpreters); failures shrink to JSON replay files"}],
    "checks": checks,
    "not_applicable": na,
    "notes": "All checks: exit 0 held / 1 VIOLATION / 2 harness error. VERIF_SEED selects the Hypothesis seeds (seed*1000+shard). Known findings live in known_findings.json; regress replays in replays/regress/.",
}
with open(os.path.join(HERE, "MANIFEST.json"), "w") as fh:
    json.dump(manifest, fh, indent=1)
print("checks:", [c["property_id"] for c in checks], "not_applicable:", [n["property_id"] for n in na])
