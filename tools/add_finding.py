#!/venv/bin/python
"""Add a regress replay + a 'fixed' (or 'open') entry to known_findings.json.

usage: tools/add_finding.py <fid> <property> <sub> <kind> <status> <commit|-> <what> <case-json> [trigger]
"""
import json, os, sys
HERE = os.path.dirname(os.path.dirname(os.path.abspath(__file__)))
fid, pid, sub, kind, status, commit, what, case = sys.argv[1:9]
trigger = sys.argv[9] if len(sys.argv) > 9 else None
case = json.loads(case)
sub_dir = "regress" if status == "fixed" else "known"
os.makedirs(os.path.join(HERE, "replays", sub_dir), exist_ok=True)
rel = os.path.join("replays", sub_dir, f"{pid}-{fid}.json")
with open(os.path.join(HERE, rel), "w") as fh:
    json.dump({"property": pid, "sub": sub, "kind": kind, "case": case, "finding": fid}, fh, indent=1)
kf = os.path.join(HERE, "known_findings.json")
data = json.load(open(kf))
data["findings"] = [f for f in data["findings"] if f["id"] != fid]
entry = {"id": fid, "property": pid, "status": status, "sub": sub, "kind": kind, "repro": rel}
if status == "fixed":
    entry["commit"] = commit
    entry["what"] = f"fixed: property={pid} {commit} {what}"
else:
    entry["what"] = what
    entry["trigger"] = trigger
data["findings"].append(entry)
json.dump(data, open(kf, "w"), indent=1)
print("added", fid, rel)
