#!/bin/sh
# Runs every mutants/<ID>-<n>.patch against a scratch copy and reports whether the quick tier detects it.
# usage: tools/sensitivity.sh [pattern]      (never touches /repo)
cd "$(dirname "$0")/.." || exit 2
for p in mutants/${1:-*}.patch; do
  id=$(basename "$p" | cut -d- -f1)
  start=$(date +%s)
  out=$(tools/with_patch.sh "$p" ./check "$id" quick 2>/dev/null); rc=$?
  end=$(date +%s)
  kinds=$(echo "$out" | grep '^VIOLATION' | sed 's/.*replay=replays\/[a-z]*\///; s/-[0-9a-f]*\.json//' | sort -u | head -3 | tr '\n' ' ')
  echo "$(basename "$p" .patch) | rc=$rc | $((end-start))s | $kinds"
done
