#!/venv/bin/python
"""Systematic mutation analysis of flamapy/fm_metamodel against the registered checks.

For every selected mutant: copy the package to a scratch dir, overwrite one file with the mutated
source, run the pinned test-suite against the copy (mutants the suite kills are uninteresting), then
run the quick tier of the properties anchored in that file with VF_REPO pointing at the copy.
Survivors (tests pass, no check fires) are the output worth reading: each is either an equivalent
mutant, a change outside the 20 properties, or a weak spot of a check.

usage: tools/mutation_run.py [--files glob] [--per-file N] [--seed S] [--out file.jsonl]
Never touches /repo.
"""
import argparse
import ast
import copy
import fnmatch
import json
import os
import random
import shutil
import subprocess
import sys
import tempfile
import time

HERE = os.path.dirname(os.path.dirname(os.path.abspath(__file__)))
PKG = "/repo/flamapy/metamodels/fm_metamodel"

RELEVANT = {
    "models/feature_model.py": ["C03", "C18", "C20", "C17", "C15", "C02"],
    "operations/fm_atomic_sets.py": ["C15", "C19"],
    "operations/fm_average_branching_factor.py": ["C16", "C17", "C19"],
    "operations/fm_core_features.py": ["C14", "C19"],
    "operations/fm_count_leafs.py": ["C16", "C19"],
    "operations/fm_estimated_configurations_number.py": ["C13", "C19"],
    "operations/fm_feature_ancestors.py": ["C16", "C19"],
    "operations/fm_generate_random_attribute.py": ["C19"],
    "operations/fm_leaf_features.py": ["C16", "C17", "C19"],
    "operations/fm_max_depth_tree.py": ["C16", "C17", "C19"],
    "operations/fm_metrics.py": ["C17", "C19"],
    "operations/fm_variation_points.py": ["C16", "C19"],
    "transformations/uvl_writer.py": ["C01", "C12"],
    "transformations/uvl_reader.py": ["C01", "C04", "C02"],
    "transformations/afm_writer.py": ["C06", "C12"],
    "transformations/afm_reader.py": ["C06", "C09", "C02"],
    "transformations/json_writer.py": ["C05", "C12"],
    "transformations/json_reader.py": ["C05", "C02"],
    "transformations/glencoe_writer.py": ["C08", "C12"],
    "transformations/glencoe_reader.py": ["C08", "C09", "C02"],
    "transformations/featureide_writer.py": ["C07", "C12"],
    "transformations/featureide_reader.py": ["C07", "C09", "C02"],
    "transformations/xml_reader.py": ["C09", "C02", "C16"],
    "transformations/splot_writer.py": ["C10", "C12"],
    "transformations/pl_writer.py": ["C10", "C12"],
    "transformations/clafer_writer.py": ["C11", "C12"],
}

CMP = {ast.Eq: ast.NotEq, ast.NotEq: ast.Eq, ast.Lt: ast.LtE, ast.LtE: ast.Lt, ast.Gt: ast.GtE, ast.GtE: ast.Gt,
       ast.Is: ast.IsNot, ast.IsNot: ast.Is, ast.In: ast.NotIn, ast.NotIn: ast.In}
ATTR_SWAP = {"left": "right", "right": "left", "card_min": "card_max", "card_max": "card_min",
             "min": "max", "max": "min", "min_value": "max_value", "max_value": "min_value"}
NAME_SWAP = {"min": "max", "max": "min", "any": "all", "all": "any"}


class Collector(ast.NodeVisitor):
    """Enumerates mutation points as (kind, node-id path) without changing the tree."""

    def __init__(self):
        self.points = []
        self.idx = 0

    def generic_visit(self, node):
        node._mid = self.idx
        self.idx += 1
        if isinstance(node, ast.Compare) and len(node.ops) == 1 and type(node.ops[0]) in CMP:
            self.points.append(("cmp", node._mid))
        if isinstance(node, ast.BoolOp):
            self.points.append(("boolop", node._mid))
        if isinstance(node, ast.UnaryOp) and isinstance(node.op, ast.Not):
            self.points.append(("drop-not", node._mid))
        if isinstance(node, ast.Constant) and not isinstance(getattr(node, "_parent", None), ast.Expr):
            if isinstance(node.value, bool):
                self.points.append(("bool-const", node._mid))
            elif isinstance(node.value, int):
                self.points.append(("int-const+1", node._mid))
                if node.value > 0:
                    self.points.append(("int-const-1", node._mid))
            elif isinstance(node.value, str) and 0 < len(node.value) <= 12 and not getattr(node, "_in_fstring_spec", False):
                self.points.append(("str-const", node._mid))
        if isinstance(node, ast.BinOp) and isinstance(node.op, (ast.Add, ast.Sub)):
            self.points.append(("addsub", node._mid))
        if isinstance(node, ast.If) or isinstance(node, ast.IfExp):
            self.points.append(("negate-if", node._mid))
        if isinstance(node, ast.Attribute) and node.attr in ATTR_SWAP:
            self.points.append(("attr-swap", node._mid))
        if isinstance(node, ast.Name) and node.id in NAME_SWAP and isinstance(node.ctx, ast.Load):
            self.points.append(("name-swap", node._mid))
        if isinstance(node, (ast.Expr, ast.Assign, ast.AugAssign)) and not (
                isinstance(node, ast.Expr) and isinstance(node.value, ast.Constant)):
            self.points.append(("delete-stmt", node._mid))
        if isinstance(node, ast.Call) and len(node.args) == 2 and not node.keywords:
            self.points.append(("swap-args", node._mid))
        if isinstance(node, ast.Return) and node.value is not None and not isinstance(node.value, ast.Constant):
            pass
        if isinstance(node, ast.Subscript) and isinstance(node.slice, ast.Constant) and isinstance(node.slice.value, int):
            self.points.append(("index", node._mid))
        for child in ast.iter_child_nodes(node):
            child._parent = node
        super().generic_visit(node)


class Applier(ast.NodeTransformer):
    def __init__(self, kind, mid):
        self.kind, self.mid, self.idx, self.done = kind, mid, 0, None

    def generic_visit(self, node):
        my = self.idx
        self.idx += 1
        node = super().generic_visit(node)
        if my != self.mid:
            return node
        k = self.kind
        line = getattr(node, "lineno", 0)
        if k == "cmp":
            old = type(node.ops[0]).__name__
            node.ops = [CMP[type(node.ops[0])]()]
            self.done = (line, f"{old} -> {type(node.ops[0]).__name__}")
        elif k == "boolop":
            old = type(node.op).__name__
            node.op = ast.Or() if isinstance(node.op, ast.And) else ast.And()
            self.done = (line, f"{old} -> {type(node.op).__name__}")
        elif k == "drop-not":
            self.done = (line, "removed 'not'")
            return node.operand
        elif k == "bool-const":
            node.value = not node.value
            self.done = (line, f"constant -> {node.value}")
        elif k == "int-const+1":
            node.value += 1
            self.done = (line, f"int constant -> {node.value}")
        elif k == "int-const-1":
            node.value -= 1
            self.done = (line, f"int constant -> {node.value}")
        elif k == "str-const":
            old = node.value
            node.value = old + "_" if old.isalpha() else old[:-1]
            self.done = (line, f"string {old!r} -> {node.value!r}")
        elif k == "addsub":
            node.op = ast.Sub() if isinstance(node.op, ast.Add) else ast.Add()
            self.done = (line, "+ <-> -")
        elif k == "negate-if":
            node.test = ast.UnaryOp(op=ast.Not(), operand=node.test)
            self.done = (line, "negated condition")
        elif k == "attr-swap":
            old = node.attr
            node.attr = ATTR_SWAP[old]
            self.done = (line, f".{old} -> .{node.attr}")
        elif k == "name-swap":
            old = node.id
            node.id = NAME_SWAP[old]
            self.done = (line, f"{old} -> {node.id}")
        elif k == "delete-stmt":
            self.done = (line, "statement deleted")
            return ast.Pass()
        elif k == "swap-args":
            node.args = [node.args[1], node.args[0]]
            self.done = (line, "call arguments swapped")
        elif k == "index":
            old = node.slice.value
            node.slice = ast.Constant(value=old + 1 if old >= 0 else old - 1)
            self.done = (line, f"index {old} -> {node.slice.value}")
        return node


def mutants_of(path):
    src = open(path, encoding="utf-8").read()
    tree = ast.parse(src)
    col = Collector()
    col.visit(tree)
    return src, col.points


def apply(src, kind, mid):
    tree = ast.parse(src)
    ap = Applier(kind, mid)
    new = ap.visit(tree)
    ast.fix_missing_locations(new)
    if ap.done is None:
        return None, None
    return ast.unparse(new), ap.done


def run(cmd, env=None, cwd=None, timeout=1500):
    try:
        p = subprocess.run(cmd, env=env, cwd=cwd, capture_output=True, text=True, timeout=timeout)
        return p.returncode, p.stdout + p.stderr
    except subprocess.TimeoutExpired:
        return 124, "timeout"


def main():
    ap = argparse.ArgumentParser()
    ap.add_argument("--files", default="*")
    ap.add_argument("--per-file", type=int, default=25)
    ap.add_argument("--seed", type=int, default=1)
    ap.add_argument("--out", default=os.path.join(HERE, ".work", "mutation.jsonl"))
    ap.add_argument("--tier", default="quick")
    args = ap.parse_args()
    os.makedirs(os.path.dirname(args.out), exist_ok=True)
    rng = random.Random(args.seed)
    summary = {"tests": 0, "checks": 0, "survived": 0, "invalid": 0}
    with open(args.out, "a", encoding="utf-8") as log:
        for rel, props in RELEVANT.items():
            if not fnmatch.fnmatch(rel, args.files):
                continue
            path = os.path.join(PKG, rel)
            src, points = mutants_of(path)
            rng.shuffle(points)
            for kind, mid in points[:args.per_file]:
                mutated, done = apply(src, kind, mid)
                if mutated is None or mutated == ast.unparse(ast.parse(src)):
                    continue
                scratch = tempfile.mkdtemp(prefix="vfmu-")
                try:
                    os.makedirs(os.path.join(scratch, "flamapy"))
                    shutil.copytree("/repo/flamapy/metamodels", os.path.join(scratch, "flamapy", "metamodels"),
                                    ignore=shutil.ignore_patterns("__pycache__"))
                    shutil.copytree("/repo/tests", os.path.join(scratch, "tests"), ignore=shutil.ignore_patterns("__pycache__"))
                    os.symlink("/repo/resources", os.path.join(scratch, "resources"))
                    with open(os.path.join(scratch, "flamapy", "metamodels", "fm_metamodel", rel), "w", encoding="utf-8") as fh:
                        fh.write(mutated)
                    t0 = time.time()
                    rc, out = run(["/venv/bin/python", "-m", "pytest", "-q", "-x", "-p", "no:cacheprovider", "tests"], cwd=scratch,
                                  env={**os.environ, "PYTHONDONTWRITEBYTECODE": "1"})
                    rec = {"file": rel, "line": done[0], "kind": kind, "what": done[1], "props": props}
                    if "144 passed" not in out:
                        rec["result"] = "killed-by-tests" if "failed" in out or "error" in out.lower() else "invalid"
                        summary["tests" if rec["result"] == "killed-by-tests" else "invalid"] += 1
                    else:
                        killers = []
                        for pid in props:
                            env = {**os.environ, "VF_REPO": scratch, "PYTHONDONTWRITEBYTECODE": "1"}
                            rc, out = run([os.path.join(HERE, "check"), pid, args.tier], env=env, cwd=HERE)
                            if rc == 1:
                                kinds = sorted({ln.split("replay=")[1].split("/")[-1].rsplit("-", 1)[0]
                                                for ln in out.splitlines() if ln.startswith("VIOLATION")})
                                killers.append({"property": pid, "kinds": kinds[:3]})
                                break
                            if rc not in (0, 1):
                                killers.append({"property": pid, "harness_rc": rc})
                        rec["killers"] = killers
                        rec["result"] = "killed-by-check" if any("kinds" in k for k in killers) else (
                            "harness-error" if killers else "SURVIVED")
                        summary["checks" if rec["result"] == "killed-by-check" else "survived"] += 1
                    rec["seconds"] = round(time.time() - t0, 1)
                    log.write(json.dumps(rec) + "\n")
                    log.flush()
                    print(f"{rec['result']:16} {rel}:{done[0]} [{kind}] {done[1]}  {rec.get('killers', '')}", flush=True)
                finally:
                    shutil.rmtree(scratch, ignore_errors=True)
    print("summary:", summary)


if __name__ == "__main__":
    sys.exit(main())
