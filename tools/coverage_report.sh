#!/bin/sh
# usage: tools/coverage_report.sh [dir]   - runs the quick tier with VF_COVERAGE set and prints line/branch coverage of
# the package under test (generator-health aid; never part of a registered command). Needs coverage.py in /venv.
d="${1:-/tmp/vfcov}"; rm -rf "$d"
cd "$(dirname "$0")/.." || exit 2
VF_COVERAGE="$d" VF_NO_OPT=1 tools/run_all.sh quick 1
/venv/bin/python -m coverage combine --keep --data-file="$d/.combined" "$d"/cov.* >/dev/null
/venv/bin/python -m coverage report -m --data-file="$d/.combined" --include='/repo/flamapy/*'
