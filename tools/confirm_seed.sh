#!/bin/sh
# usage: tools/confirm_seed.sh <ID> <dir-with-patch.diff-and-demo.py>
# Confirms in a fresh scratch worktree: patch applies, 144 tests pass with it, demo fails with it and passes without.
id="$1"; dir="$(realpath "$2")"
wt="$(mktemp -d /tmp/cf-XXXXXX)"; rmdir "$wt"
git -C /repo worktree add -q "$wt" HEAD || exit 2
cd "$wt" || exit 2
git apply "$dir/patch.diff" || { echo "PATCH DOES NOT APPLY"; cd /; git -C /repo worktree remove --force "$wt"; exit 2; }
tests=$(/venv/bin/python -m pytest -q -p no:cacheprovider tests 2>&1 | tail -1)
/venv/bin/python "$dir/demo.py" >/dev/null 2>&1; with=$?
git checkout -q -- .
/venv/bin/python "$dir/demo.py" >/dev/null 2>&1; without=$?
cd /; git -C /repo worktree remove --force "$wt"
echo "$id: tests[$tests] demo-with-change rc=$with demo-without rc=$without"
